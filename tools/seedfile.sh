#!/bin/sh
# seedfile.sh NAME SRCDIR VERIFYLOG ID [PART] : file a seeded change that tools/seedverify.sh (or seedscript.sh) has
# already confirmed (its output = VERIFYLOG): copy patch.diff, demo/, NOTES.md to /verif/seeded/NAME, apply the patch
# to /repo, run ./check ID [--part PART] once, write results.txt, keep the first saved failing case as
# replays/regress/ID-seed-NAME.json, restore /repo.
name=$1; src=$2; vlog=$3; id=$4; part=$5
dst=/verif/seeded/$name
mkdir -p $dst
cp $src/patch.diff $dst/; cp -r $src/demo $dst/ 2>/dev/null; cp $src/NOTES.md $dst/ 2>/dev/null
rm -f $dst/demo/taskctl $dst/demo/*.log
cd /repo || exit 2
git diff --quiet || { echo "/repo has local modifications"; exit 2; }
git apply $dst/patch.diff || { echo "APPLY-FAILED $name"; exit 2; }
trap "git -C /repo checkout -- . ; git -C /repo clean -fdq" EXIT
trap "exit 130" INT TERM HUP
find /verif/replays -maxdepth 1 -name "$id-*.json" -delete
out=$(cd /verif && ./check $id ${part:+--part $part} 2>&1); rc=$?
{
  echo "# independent confirmation (fresh worktree of /repo HEAD $(git -C /repo log --format=%h -1))"
  cat $vlog
  echo "# checks against the change applied to /repo (restored afterwards): ./check $id ${part:+--part $part}"
  echo "== patch.diff $id exit=$rc"; echo "$out" | grep -E "VIOLATION|FAILURE|INCONCLUSIVE|KNOWN" | cut -c1-400 | head -4
} | tee $dst/results.txt
f=$(ls /verif/replays/$id-*.json 2>/dev/null | grep -v pending | head -1)
short=$(echo $name | sed "s/^$id-//")
if [ -n "$f" ]; then mkdir -p /verif/replays/regress; cp "$f" /verif/replays/regress/$id-seed-$short.json; echo "kept $id-seed-$short.json"; else echo "NO-FAILING-CASE for $name ($id)"; fi
find /verif/replays -maxdepth 1 -name "$id-*.json" -delete
