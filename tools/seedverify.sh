#!/bin/sh
# seedverify.sh ID SRC [TESTPKG TESTRUN] : confirm a seeded change independently in a fresh scratch worktree:
#   the patch applies, builds, the repo suite passes; a Go demo test fails with it and passes without.
# SRC = directory with patch.diff and demo/. Prints a summary; leaves nothing behind.
id=$1; src=$2; pkg=$3; run=$4
w=/tmp/seedverify-$id
git -C /repo worktree remove --force $w 2>/dev/null
git -C /repo worktree add -q --detach $w HEAD || exit 2
trap "git -C /repo worktree remove --force $w" EXIT
cd $w || exit 2
git apply $src/patch.diff || { echo "PATCH-DOES-NOT-APPLY"; exit 1; }
go build ./... || { echo "DOES-NOT-BUILD"; exit 1; }
if go test -vet=off -count=1 -timeout 300s ./... > /tmp/seedverify-$id.log 2>&1; then echo "repo suite with change: PASS"; else echo "repo suite with change: FAIL"; tail -15 /tmp/seedverify-$id.log; fi
if [ -n "$pkg" ]; then
  cp $src/demo/zz_seed_demo_test.go $pkg/ 2>/dev/null
  if go test -vet=off -count=1 -timeout 300s -run "$run" ./$pkg/ > /tmp/seedverify-$id-demo1.log 2>&1; then echo "demo with change: PASS (unexpected)"; else echo "demo with change: FAIL (expected)"; fi
  git apply -R $src/patch.diff
  if go test -vet=off -count=1 -timeout 300s -run "$run" ./$pkg/ > /tmp/seedverify-$id-demo2.log 2>&1; then echo "demo without change: PASS (expected)"; else echo "demo without change: FAIL (unexpected)"; tail -15 /tmp/seedverify-$id-demo2.log; fi
fi
