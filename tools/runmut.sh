#!/bin/sh
# runmut.sh DIFF ID [ID...] : apply a mutant to /repo's working tree, check it compiles and passes the repo tests,
# run the quick checks, always restore /repo afterwards.
diff=$(readlink -f "$1"); shift
cd /repo || exit 2
git diff --quiet || { echo "/repo has local modifications"; exit 2; }
git apply "$diff" || { echo APPLY-FAILED; exit 2; }
trap "git -C /repo checkout -- . ; git -C /repo clean -fdq" EXIT
trap "exit 130" INT TERM HUP
if [ -z "$SKIPTESTS" ]; then
  go build ./... && go test -vet=off -count=1 -timeout 180s ./... >/tmp/mut-test.log 2>&1 || { echo "MUTANT-FAILS-REPO-TESTS"; tail -20 /tmp/mut-test.log; exit 3; }
fi
for id in "$@"; do
  out=$(cd /verif && ./check $id ${TIER:+--tier $TIER} 2>&1); rc=$?
  echo "== $(basename $diff) $id exit=$rc"; echo "$out" | grep -E "VIOLATION|FAILURE|INCONCLUSIVE|KNOWN" | cut -c1-400 | head -4
done
