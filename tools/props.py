"""Declarative table: property -> harness package, parts (test functions), budgets per tier."""

Q, T = "quick", "thorough"

HOOK_COMMITS = ["c346870", "7f5b3c8"]
NOT_APPLICABLE = {}

ENGINE_ASSUME = [
    "goroutine interleavings inside one polling pass of the scheduler are Go's choice, not enumerated",
    "the checker-controlled Runner implements the documented Runner contract (Cancel fails what is in flight, waits, later runs fail)",
    "a condition-false stage with dependencies may be skipped at once (taskctl) or once its dependencies are satisfied; a run must follow one reading throughout",
    "liveness is observed as 'within 4 s (20 s on the retry)' where a case normally needs a few ms",
]


def engine_parts(cancel=False, rendezvous=False, cli=True):
    parts = [
        {"name": "exhaustive", "test": "TestExhaustive", "kind": "plain", "n": {Q: 3, T: 4},
         "shards": {Q: 8, T: 16}, "timeout": {Q: 400, T: 2400}},
        {"name": "random", "test": "TestRandom", "checks": {Q: 4000, T: 120000}, "shards": {Q: 8, T: 16},
         "timeout": {Q: 400, T: 2400}, "shrinktime": "25s"},
        {"name": "wide", "test": "TestWide", "checks": {Q: 800, T: 16000}, "shards": {Q: 8, T: 16},
         "timeout": {Q: 400, T: 2400}, "shrinktime": "25s"},
    ]
    if cancel:
        parts.append({"name": "cancel", "test": "TestCancel", "checks": {Q: 1600, T: 40000}, "shards": {Q: 4, T: 16},
                      "timeout": {Q: 400, T: 2400}, "shrinktime": "25s"})
        parts.append({"name": "realrunner", "pkg": "c12", "test": "TestCancel", "checks": {Q: 48, T: 800}, "shards": {Q: 8, T: 16},
                      "timeout": {Q: 500, T: 2400}, "shrinktime": "60s"})
    if cli:
        parts.append({"name": "cli", "pkg": "c01cli", "test": "TestCLI", "checks": {Q: 480, T: 8000}, "shards": {Q: 8, T: 16},
                      "timeout": {Q: 500, T: 3000}, "shrinktime": "40s"})
    if rendezvous:
        parts.append({"name": "rendezvous", "pkg": "c04r", "test": "TestRendezvous", "checks": {Q: 320, T: 4800}, "shards": {Q: 8, T: 16},
                      "timeout": {Q: 500, T: 3000}, "shrinktime": "40s"})
    return parts


ENGINE_RULE = ("exhaustive: every labelled DAG on n<=3 stages x every declaration order x every assignment of "
               "{ok, fail, fail+allow_failure, condition false} x every completion order (thorough: also all 543 DAGs on 4 stages, "
               "declaration orders and outcome assignments from a PRNG seeded by VERIF_SEED, every completion order up to 24); "
               "random: rapid DAGs up to 8 stages with nested pipelines (depth<=2), condition-true stages, random declaration "
               "order, completion order drawn at every quiescent point (single release or a subset at once); cli: rapid pipelines of "
               "2..8 stages with real shell tasks (durations 0..120 ms, outcomes ok / fail / stage-allowed / task-allowed / condition "
               "false, task names that collide once normalised) run through the binary: start/end trace, executed set, summary and "
               "exit status against a reference evaluation of the DAG; wide: rapid DAGs of 17..40 stages with few edges, a sixth, half "
               "or all of the stages nested pipelines, with or without stage conditions. depends_on lists may repeat a name; a "
               "pipeline object may be used by two stages. ")

PROPS = {
    "C01": {
        "pkg": "c01", "bin": True,
        "technique": "model-based stateful PBT: real Scheduler + checker-controlled Runner vs reference scheduler model; "
                     "exhaustive DAGs<=4 x completion orders + rapid state machine",
        "level_text": "Every entry into Runner.Run is compared with the set of stages the reference model allows to be in flight, at "
                      "every quiescent point of every explored completion order; dependencies are held blocked through a settle "
                      "window so a premature start has the chance to happen. Complete over DAGs<=3 (all orders/outcomes/schedules), "
                      "all 543 DAGs on 4 stages, sampled to 8 stages + nesting. A pipeline object may be used by two stages of one pipeline, after one another or in flight together (its stages run once; both uses end when it is resolved), with later stages depending on the second use. depends_on lists may name a stage twice; tasks carry attributes unrelated to scheduling; part wide runs 17..40 stages (up to all of them nested pipelines).",
        "level_note": "Trusts the 100-line reference model (model.go) and the quiescence detection; " + ENGINE_ASSUME[0],
        "rule": ENGINE_RULE + "Non-trivial for C01 = at least one dependency edge and at least 2 runs in flight at some point; "
                "distinct = canonical JSON of (pipeline, declaration order, outcomes, choices).",
        "assumptions": ENGINE_ASSUME, "parts": engine_parts(),
    },
    "C02": {
        "pkg": "c01", "bin": True,
        "technique": "model-based stateful PBT + metamorphic (two independently drawn completion orders of the same pipeline must "
                     "give the same statuses / error / ran-set)",
        "level_text": "Set of executed tasks, final status of every stage and error-nil-ness of Schedule are compared with the "
                      "reference model for every explored schedule; every random pipeline is executed under two independent "
                      "completion orders, the exhaustive part under all of them. Generated failures come in four concrete error types.",
        "level_note": "Trusts the reference model; which error Schedule returns is not asserted (the statement does not promise it).",
        "rule": ENGINE_RULE + "Non-trivial for C02 = a non-allowed failure that has a dependant while another stage is in flight, or a "
                "stage with one failed and one still-running dependency; distinct = canonical JSON of the case.",
        "assumptions": ENGINE_ASSUME, "parts": engine_parts(),
    },
    "C03": {
        "pkg": "c01", "bin": True,
        "technique": "model-based stateful PBT with injected cancellation (caller Cancel at a drawn quiescent point, unevaluable stage "
                     "condition at a drawn node); bounded-liveness oracle with one enlarged retry",
        "level_text": "Schedule must return within a bound >=1000x the normal case time after the last release; afterwards no stage is "
                      "waiting/running, every stage of the model's ran-set was executed exactly once, none twice. Cancelled runs "
                      "(controlled Runner here, real TaskRunner in part 'realrunner') must return and never run a task twice.",
        "level_note": "Termination is observed as 'returned within the bound'; statuses after a cancel are not asserted.",
        "rule": ENGINE_RULE + "cancel: rapid pipelines up to 7 stages where the chooser may call Scheduler.Cancel at any quiescent point "
                "(p=1/6 per point) or a drawn stage has an unevaluable condition. Non-trivial for C03 = normal run with >=2 stages "
                "and >=1 edge, or a cancelled run (distinct by injection kind, runs in flight at the cancel and case).",
        "assumptions": ENGINE_ASSUME, "parts": engine_parts(cancel=True),
    },
    "C04": {
        "pkg": "c01", "bin": True,
        "technique": "model-based stateful PBT: the property never releases a run until the set blocked inside the controlled Runner "
                     "equals the model's eligible set",
        "level_text": "At every quiescent point of every explored schedule the set of tasks simultaneously inside Runner.Run must equal "
                      "the model's eligible set; since nothing is released before that holds, a scheduler that serialises "
                      "independent stages can never get there and hits the liveness bound. Part rendezvous does the same at system "
                      "level (real runner, binary): stages of one layer each wait for all others of the layer to be running. In part rendezvous the waiting loop sits in the task's command, in its condition or in its before hook (drawn). The rendezvous tasks may share one named context with before and after commands.",
        "level_note": "Bounded liveness (4 s, retried once with 20 s); trusts the reference model's eligibility rule.",
        "rule": ENGINE_RULE + "rendezvous: rapid layered pipelines (1..3 layers x 2..4 stages; task names that collide once "
                "normalised, one task in several concurrent stages, shared exportAs, allowed failures) run by the real runner through "
                "the binary: every stage waits until all stages of its layer are running. Non-trivial for C04 = the expected in-flight "
                "set had size >= 2 at some point (every rendezvous case); distinct = canonical JSON.",
        "assumptions": ENGINE_ASSUME, "parts": engine_parts(rendezvous=True),
    },
    "C05": {
        "pkg": "c05", "bin": True,
        "technique": "exhaustive enumeration of all digraphs on <=4 stages x declaration orders + rapid random digraphs, "
                     "differential against Kahn's algorithm; same graphs through the CLI",
        "level_text": "Complete for every edge set on up to 4 stages in every declaration order (in-process API); sampled "
                      "beyond (n<=10) and at the binary level. An iff in both directions plus exact edge sets, so neither "
                      "a missed cycle nor a false cycle nor a lost/invented edge passes on the explored graphs. Part large: 11..20 stages up to complete forward density, declared dependencies-first, dependants-first or shuffled, with or without one back edge. A depends_on list may name a stage more than once (same verdict, same edge set).",
        "level_note": "Trusts the harness's 20-line Kahn cycle detector and the DOT output parser (node labels/edges) for the CLI part.",
        "rule": "exhaustive: every edge set (self-loops included) on n<=4 stages x every declaration order, "
                "sharded by edge-set index; random: rapid digraphs n<=10 with per-case density/back-edge mode and random "
                "declaration order; cli: the same generator (n<=7) written as YAML and decided by `taskctl list`/`graph`. "
                "Oracle: Kahn's algorithm. Non-trivial = at least 3 edges and a declaration order that is not a "
                "topological order; distinct = canonical JSON of (n, edges, order).",
        "assumptions": ["depends_on names only declared stages (dangling names belong to C18)",
                        "edges are compared as sets (a name listed twice in depends_on means the same as listing it once)"],
        "parts": [
            {"name": "exhaustive", "test": "TestExhaustive", "kind": "plain", "n": {Q: 4, T: 4},
             "shards": {Q: 6, T: 8}, "timeout": {Q: 300, T: 900}},
            {"name": "random", "test": "TestRandom", "checks": {Q: 60000, T: 1500000}, "shards": {Q: 6, T: 8},
             "timeout": {Q: 300, T: 1800}},
            {"name": "large", "test": "TestLarge", "checks": {Q: 4000, T: 100000}, "shards": {Q: 4, T: 8}, "timeout": {Q: 400, T: 2400}},
            {"name": "cli", "test": "TestCLI", "checks": {Q: 160, T: 4000}, "shards": {Q: 4, T: 8},
             "timeout": {Q: 300, T: 1800}},
        ],
    },
    "C06": {
        "pkg": "c06", "bin": True,
        "technique": "exhaustive enumeration of the task grammar + rapid random tasks, compared with a task-run reference model "
                     "(ordered token trace in a file and on stdout)",
        "level_text": "Complete over the quantifier's grammar (1..3 commands x failing subsets x 0..3 variations x allow_failure x "
                      "before/after absent|ok|failing x condition absent|true|false = 3024 tasks) in-process; random larger tasks "
                      "(6 commands, 4 exit shapes, statuses 1..255, sleeps) in-process, as a stage and through the binary. The trace "
                      "must equal the model trace token for token, so order, overlap (S immediately followed by its E), early stop "
                      "and hook placement are all decided. A third of the random cases are run twice on one runner (same or new task object, drawn): every exit status, the condition's included, is read from a file when the command runs, and the second run has other statuses behind identical texts; it is judged by the model like the first. Command texts may begin with a comment line, an empty line, blanks or a line that ends in a comment. The variation list may end with a copy of its first entry.",
        "level_note": "When an `after` hook fails the remaining `after` hooks may or may not run (statement is silent); a task without "
                      "variations counts as one empty variation.",
        "rule": "grammar: full enumeration (status of failing commands from a PRNG seeded by VERIF_SEED); statuses: every status 0..255 at "
                "every position of 1..3 commands x allow_failure; random/cli: rapid. Non-trivial for C06 = at least 2 commands and (a "
                "failing command, or >= 2 variations, or a hook); distinct = canonical JSON of the case.",
        "assumptions": ["commands are shell snippets verified to work in mvdan/sh v3.1.1 (printf, exit, subshell, sh -c, pipeline)"],
        "parts": [
            {"name": "grammar", "test": "TestGrammar", "kind": "plain", "shards": {Q: 8, T: 16}, "timeout": {Q: 400, T: 900}},
            {"name": "random", "test": "TestRandom", "checks": {Q: 1600, T: 40000}, "shards": {Q: 4, T: 16}, "timeout": {Q: 400, T: 2400}},
            {"name": "cli", "test": "TestCLI", "checks": {Q: 200, T: 4000}, "shards": {Q: 4, T: 16}, "timeout": {Q: 400, T: 2400}},
        ],
    },
    "C07": {
        "pkg": "c06", "bin": True,
        "technique": "exhaustive status sweep (0..255 x position x allow_failure x direct/stage) + grammar enumeration + rapid CLI "
                     "target vectors, against the task-run model",
        "level_text": "Every exit status 0..255 at every command position of 1..3-command tasks, with and without allow_failure, run "
                      "directly and as a pipeline stage, is compared with the model (error-nil-ness, Errored, Error, ExitCode, Skipped); "
                      "CLI: 1..4 targets (tasks and pipelines) with drawn statuses in drawn order: exit 0 iff all succeed, executed in "
                      "command-line order, nothing after the first failing target. A third of the random cases are run twice on one runner with statuses read at run time (same texts, other outcome); for a re-used task object only what the second run returns, executes and has reason to set is judged. `run task NAME` is also exercised with a pipeline of the same name that ends the other way round. Pipeline targets may hold a stage with allow_failure that runs a failing nested pipeline.",
        "level_note": "Errored/ExitCode after a failing before-hook are not asserted (the statement speaks of commands); the non-zero value "
                      "of the process exit status is not asserted.",
        "rule": "statuses: full sweep; grammar: as C06; targets: rapid argv of 1..4 targets; cli: the random task generator (hooks and condition, failing or not, up to 4 commands) through the binary - the process exit status is zero exactly when the model says the task did not fail, failing before hooks included. Non-trivial for C07 = status > 1, or failing "
                "position > 0, or run as stage/CLI, or >= 2 targets; distinct = canonical JSON.",
        "assumptions": ["commands are shell snippets verified to work in mvdan/sh v3.1.1"],
        "parts": [
            {"name": "statuses", "test": "TestStatuses", "kind": "plain", "shards": {Q: 8, T: 16}, "timeout": {Q: 400, T: 900}},
            {"name": "grammar", "test": "TestGrammar", "kind": "plain", "shards": {Q: 4, T: 16}, "timeout": {Q: 400, T: 900}},
            {"name": "random", "test": "TestRandom", "checks": {Q: 800, T: 40000}, "shards": {Q: 2, T: 16}, "timeout": {Q: 400, T: 2400}},
            {"name": "targets", "test": "TestTargets", "checks": {Q: 300, T: 6000}, "shards": {Q: 4, T: 16}, "timeout": {Q: 400, T: 2400}},
            {"name": "cli", "test": "TestCLI", "checks": {Q: 200, T: 4000}, "shards": {Q: 4, T: 16}, "timeout": {Q: 400, T: 2400}},
        ],
    },
    "C08": {
        "pkg": "c08", "bin": True,
        "technique": "rapid-generated pipelines sharing one task; recording Runner (in-process) and echoing commands (binary) "
                     "compared with the overlay model task+stage",
        "level_text": "For 2..6 stages sharing one task (parallel / chained / mixed), an optional second pipeline and a direct run in the "
                      "same process, what each execution sees must be exactly the task's own env/variables/dir overlaid by that "
                      "stage's overrides - no key private to another stage, no other stage's value - and the task's own settings "
                      "must be unchanged afterwards; repeated runs; in-process (recording Runner owns nothing but observes the "
                      "task object) and through the binary (values echoed by the commands, pwd -P); part real runs the shared-task "
                      "API arrangement on the real runner with the task dir written as a template over a variable that stages override. The keys that tasks and stages set include names the runner maintains itself (ARGS, TASK_NAME, variable Args); every real execution prints them and the expectation carries the runner's defaults. In the cli part some of the names are already defined in the environment taskctl is started with. In part real some stage objects carry a Dir of their own: whatever that stage sees, the shared task and the other executions must not. The shared task may run in a named context with before and after commands (cli, real). In a third of the api and real cases some stages end in a failure their stage allows (the recording Runner returns an error, the real command exits 3): what such a stage laid over the shared task must be gone afterwards just as after a success.",
        "level_note": "Overlap of concurrent stages at the binary level is provoked by sleep durations, not enumerated.",
        "rule": "api: rapid cases (task env/vars over 4+3 keys each present with p=1/3, stages with own subsets, arrangement drawn, "
                "second pipeline, direct run, 1..2 repetitions); cli: the same plus stage/task dir. Non-trivial = >= 2 stages share the "
                "task and some key (or dir) is set by one stage and not by another; distinct = canonical JSON.",
        "assumptions": ["stage identity is carried by a stage-private variable stage_id"],
        "parts": [
            {"name": "api", "test": "TestAPI", "checks": {Q: 3000, T: 60000}, "shards": {Q: 6, T: 16}, "timeout": {Q: 400, T: 2400}},
            {"name": "real", "test": "TestReal", "checks": {Q: 800, T: 16000}, "shards": {Q: 8, T: 16}, "timeout": {Q: 400, T: 2400}},
            {"name": "cli", "test": "TestCLI", "checks": {Q: 160, T: 4000}, "shards": {Q: 8, T: 16}, "timeout": {Q: 400, T: 2400}},
        ],
    },
    "C09": {
        "pkg": "c09", "bin": True,
        "technique": "exhaustive enumeration of the 63 level subsets per rapid-drawn value ranking + exhaustive dir matrix, against "
                     "precedence tables, at the binary level",
        "level_text": "Every non-empty subset of the six env levels (parent, context, env_file, task, stage, variation) defines the same "
                      "name with values whose lexicographic order is an independent random permutation per rapid case, for direct runs "
                      "and stages; the printed value must be the highest level's. Untouched parent variables and TASK_NAME are checked "
                      "on every run, hooks on a quarter; stage cases run `taskctl pp tk`, so the direct run behind the pipeline is "
                      "checked in the same invocation. Dirs: every subset of {stage, task, context} dir x start directory x run mode "
                      "x admissible task-dir forms, pwd -P in commands, before and after. A drawn subset of the levels defines the name with the empty value (a value like any other). The parent environment also holds names that nothing overrides but that resemble overridden ones (other case, prefix, suffix, case variants of TASK_NAME and ARGS); they must pass through on every line printed. Inherited values may contain '=' themselves. With the variation level present there is a second variation that does not set the name; the command lines are compared as a sequence.",
        "level_note": "{{.Root}} in a task dir is used only when taskctl starts in the project root (from a sub-directory the code and the "
                      "README disagree about Root and the property does not settle it).",
        "rule": "env: rapid draws (permutation of six value ranks, run mode, hooks), then all subsets; dirs: full enumeration. Non-trivial = "
                ">= 2 levels present and the winning value sorts below a losing one (env) / >= 2 dir levels given (dirs); distinct = "
                "canonical JSON of (mask, ranks, mode).",
        "assumptions": ["values are short ASCII words; names are valid shell identifiers"],
        "parts": [
            {"name": "env", "test": "TestEnv", "checks": {Q: 16, T: 320}, "shards": {Q: 8, T: 16}, "timeout": {Q: 400, T: 2400}},
            {"name": "dirs", "test": "TestDirs", "kind": "plain", "shards": {Q: 4, T: 4}, "timeout": {Q: 300, T: 300}},
        ],
    },
    "C19": {
        "pkg": "c19", "bin": True,
        "technique": "rapid byte-stream/chunking generator against a normal-form (round-trip) oracle with a recording sink; "
                     "differential across the three formats in one fresh child process per format",
        "level_text": "streams: 1..8 concurrent tasks, generated streams (lines 0..10000 bytes, LF/CRLF/bare CR, unterminated tail, CSI "
                      "sequences, multi-byte runes) under arbitrary cuts into Write calls; raw must forward byte-exactly (per-task "
                      "private alphabets when several tasks share the sink), prefixed must emit whole single-task lines whose "
                      "normal form equals the input's; every chunk is handed over as a copy that must come back unmodified and the "
                      "task's recorded output must equal the input. formats: every outcome x format (matrix, exhaustive) and rapid 1..3-task "
                      "processes with durations around the cockpit's 100 ms frame: no crash, no hang, identical recorded results. Task names include formatting verbs, template braces, blanks and non-ASCII letters. Part startup launches the binary 4800 times (thorough 80000) with the cockpit format over 2..4 stages that start together: every launch must end.",
        "level_note": "Chunk boundaries inside an escape sequence are excluded from the main search by construction (known finding "
                      "ansi-split, probed separately); a hang is 12 s against ~0.3 s normal and is cross-checked by a calibration child.",
        "rule": "streams: rapid (format, 1..8 streams, line kinds incl. 4000..4200 and up to 10000 bytes, cut kinds incl. between CR and LF). "
                "Non-trivial = >= 2 concurrent tasks, or a cut inside a line / between CR and LF, or a line > 4096 bytes, or an escape "
                "sequence; formats: every case (distinct by canonical JSON). ",
        "assumptions": ["ANSI sequences are the CSI grammar ESC [ digits/; final in mHJKABCDfnr with parameters of at most 4 digits",
                        "text alphabet excludes ESC, 0x9B and NUL (BEL is included, also right behind a colour sequence)"],
        "parts": [
            {"name": "streams", "test": "TestStreams", "checks": {Q: 12000, T: 400000}, "shards": {Q: 8, T: 16}, "timeout": {Q: 400, T: 2400}},
            {"name": "probe", "test": "TestProbeAnsiSplit", "checks": {Q: 400, T: 4000}, "shards": {Q: 1, T: 4}, "timeout": {Q: 300, T: 900}},
            {"name": "matrix", "test": "TestFormatsMatrix", "kind": "plain", "shards": {Q: 6, T: 6}, "timeout": {Q: 400, T: 900}},
            {"name": "frames", "test": "TestCockpitFrames", "checks": {Q: 32, T: 640}, "shards": {Q: 8, T: 16}, "timeout": {Q: 400, T: 2400}, "shrinktime": "40s"},
            {"name": "formats", "test": "TestFormats", "checks": {Q: 48, T: 1600}, "shards": {Q: 8, T: 16}, "timeout": {Q: 400, T: 2400}, "shrinktime": "40s"},
            {"name": "startup", "test": "TestCockpitStartup", "kind": "plain", "n": {Q: 300, T: 5000}, "shards": {Q: 16, T: 16}, "timeout": {Q: 900, T: 3000}},
        ],
    },
    "C10": {
        "pkg": "c10", "bin": True,
        "technique": "exhaustive enumeration of the 15 level subsets per rapid-drawn values/argv + rapid argument vectors + exhaustive "
                     "undefined-reference positions, against precedence tables, at the binary level",
        "level_text": "Variable x is defined at every non-empty subset of {config variables, --set, task, stage} with values in a drawn "
                      "order; the rendered value must be the highest level's, next to a task-only variable and the built-ins Root, "
                      "TempDir, Args, ArgsList and $ARGS (with and without `--`). Argument vectors of up to 5 words (target-like, "
                      "k=v, -x, --set, --, -c ...) after `--` must arrive verbatim and in order and never run as targets (marker "
                      "tasks named like every word). An undefined reference at every command position (and in dir) of 1..4-command "
                      "tasks: commands before it ran, it and later ones did not, exit status non-zero. In two thirds of the cases a second variable y is defined at its own drawn subset of the four levels, so command lines carry two --set flags in either order. The argument alphabet includes words with blanks or tabs and the empty word (.ArgsList must keep the word boundaries). A task variable is a template over x, and stage cases run `pp tk`: the pipeline and the direct run resolve the same texts against their own variables. The undefined reference may sit in the task's condition. In half of the stage cases with x at the stage level the pipeline holds a second, independent stage of the same task that gives the same names other values and runs at the same time (a sleep keeps both in flight): each stage must render its own values (x, y and the templated task variable).",
        "level_note": "Words are shell-safe (the harness passes argv directly, no shell involved).",
        "rule": "vars: rapid (mode, dash, <=3 words, value permutation) then all subsets; args: rapid; undefined: full enumeration. "
                "Non-trivial = >= 2 levels present (vars); >= 2 words of which one is target-like / starts with '-' / has '=' (args); "
                "every undefined case. Distinct = canonical JSON.",
        "assumptions": ["TMPDIR and HOME are set by the harness per case"],
        "parts": [
            {"name": "vars", "test": "TestVars", "checks": {Q: 24, T: 600}, "shards": {Q: 8, T: 16}, "timeout": {Q: 400, T: 2400}},
            {"name": "args", "test": "TestArgs", "checks": {Q: 400, T: 12000}, "shards": {Q: 6, T: 16}, "timeout": {Q: 400, T: 2400}},
            {"name": "undefined", "test": "TestUndefined", "kind": "plain", "shards": {Q: 2, T: 2}, "timeout": {Q: 300, T: 300}},
        ],
    },
    "C12": {
        "pkg": "c12", "bin": False,
        "technique": "fault injection matrix + rapid scenarios against the real TaskRunner/Scheduler in one child process per case; "
                     "invariants over marker/pid logs and bounded-time returns",
        "level_text": "For 0..4 tasks in flight and 0..3 waiting stages a cancel is injected before any run, during a before hook, during "
                      "a command, during the second command, at a drawn point of a burst of 150 short commands (between commands), after "
                      "everything finished, once / twice in a row / twice concurrently, through TaskRunner.Cancel, Scheduler.Cancel or "
                      "an unevaluable stage condition. The child must not crash; Cancel and the run must return within 4 s (20 s on the "
                      "retry; ~10 ms normally); recorded pids must disappear; no marker may appear after the cancel completed; "
                      "interrupted and later runs must report errors; waiting stages must not be done. Commands may ignore SIGINT "
                      "(2 s kill grace); at the return of every single Cancel call - also of an overlapping second one - the interrupted "
                      "commands must be gone. Tasks may run in an execution context with before/after commands of its own; the marker log is snapshotted at the return of every Cancel call and nothing may be added to it afterwards. The tasks may allow failure and may carry a generous timeout of their own (an interruption is still not a success); stages interrupted inside a command must not be reported done. Phases ctx-up / ctx-before: the cancel lands while a command of the task's execution context runs. Phase after-hook: the cancel lands in a task's after command (cut, nothing follows; the task itself had succeeded).",
        "level_note": "'At any moment' is sampled at marker granularity (plus drawn delays of 0..20 ms), not at instruction granularity.",
        "rule": "matrix: in-flight 0..4 x waiting {0,2} x 6 injection points x once/twice-seq/twice-conc x runner/scheduler + condition "
                "errors (quick: double cancels only for <= 2 in flight; thorough: all); cancel: rapid over the same space with drawn "
                "burst markers and delays. Every case is non-trivial; distinct = (in flight, waiting, phase, double, via).",
        "assumptions": ["commands are `sh -c 'echo $$ >> pids; exec sleep 30'` shapes: a child that ignores SIGINT belongs to C13"],
        "parts": [
            {"name": "matrix", "test": "TestMatrix", "kind": "plain", "shards": {Q: 16, T: 16}, "timeout": {Q: 500, T: 1800}},
            {"name": "cancel", "test": "TestCancel", "checks": {Q: 64, T: 1600}, "shards": {Q: 8, T: 16}, "timeout": {Q: 500, T: 2400}, "shrinktime": "60s"},
        ],
    },
    "C11": {
        "pkg": "c11", "bin": True,
        "technique": "rapid generator (names over printable ASCII, payload files, DAG positions) with a byte-exact round-trip oracle "
                     "through the real runner and scheduler, in-process and through the binary",
        "level_text": "The producer cats generated payload files (empty, multi-line, unicode, up to 64 KiB in total, no NUL) from 1..3 "
                      "commands x 0..2 variations, optionally with an allowed failure in between; Task.Output() must equal the "
                      "concatenation byte for byte and every transitive dependant in a generated DAG (declared dependants-first) must "
                      "read exactly that text from <NAME>_OUTPUT, the name being computed by the oracle from the statement's rule "
                      "(or exportAs). A chain task checks .Output command by command. The output format is drawn (raw / prefixed, "
                      "through the binary also cockpit) and payloads may be coloured: what is captured must not depend on how it is shown. Producer and consumers may run in a named context; in a third of the cases a second producer writes other text to the same variable (same exportAs, or a name that maps to the same <NAME>_OUTPUT) after the first pipeline, and its own dependant must read that. The producer may have a condition and before/after hooks that print to standard output; that text is not part of the captured output.",
        "level_note": "Only stages that transitively depend on the producer are checked; consumers read with printenv, which appends one "
                      "newline; CLI task names avoid '{' '}' (loaded names are rendered as templates) and a leading '-'.",
        "rule": "rapid cases; non-trivial = name with a non-identifier byte, or output >= 4 KiB or multi-line, or >= 2 jobs; distinct = "
                "canonical JSON of the case.",
        "assumptions": ["total output <= 64 KiB so that it fits one environment string (128 KiB kernel limit)"],
        "parts": [
            {"name": "api", "test": "TestAPI", "checks": {Q: 3000, T: 60000}, "shards": {Q: 8, T: 16}, "timeout": {Q: 400, T: 2400}},
            {"name": "cli", "test": "TestCLI", "checks": {Q: 320, T: 6000}, "shards": {Q: 8, T: 16}, "timeout": {Q: 400, T: 2400}},
        ],
    },
    "C13": {
        "pkg": "c13", "bin": False,
        "technique": "matrix enumeration (over-runner shape x position x hook x allow_failure) + rapid tasks against a task-run model "
                     "with wall-clock budgets",
        "level_text": "External sleep, shell busy loop and a child that ignores SIGINT over-run at every position of 1..3 commands and in "
                      "before/after, with and without allow_failure; sequences of 2..4 commands of 0.6 x timeout each and instant "
                      "commands must succeed (every command gets the full timeout). Run must return within the sum of the commands' "
                      "deadlines (+2.5 s kill grace for the SIGINT-ignoring child) + 1.5 s slack, report failure also with "
                      "allow_failure, start no later command, and leave no process behind; an over-running `after` is cut short and "
                      "does not change the result. Hook lists have up to three commands, including several 0.6-timeout commands in one hook list (each hook command gets the full timeout as well). A third of the random cases and some matrix rows run the task as the only stage of a pipeline; the task's timeout setting must be unchanged afterwards. Interactive tasks read an idle pipe; external commands that finish early are unaffected. Matrix rows with timeouts of 1, 500 and 999 microseconds. A real-time command found cut is re-run once with three times the timeout before it is reported (machine load).",
        "level_note": "Time bounds are generous (a 2x slower termination passes); a breach is re-tried once with 5x slack before it is reported.",
        "rule": "matrix: 52 cases (exhaustive over the listed grid at timeout 300/500 ms); random: rapid (timeout 200..1000 ms, 1..4 commands, "
                "hooks). Non-trivial = an over-runner at position >= 1, or in a hook, or with allow_failure, or >= 2 commands of 0.6 x timeout; "
                "distinct = canonical JSON.",
        "assumptions": ["the interpreter's kill grace for a child that ignores SIGINT is 2 s (mvdan/sh default)"],
        "parts": [
            {"name": "matrix", "test": "TestMatrix", "kind": "plain", "shards": {Q: 16, T: 16}, "timeout": {Q: 400, T: 900}},
            {"name": "random", "test": "TestRandom", "checks": {Q: 48, T: 1600}, "shards": {Q: 16, T: 16}, "timeout": {Q: 400, T: 2400}, "shrinktime": "40s"},
        ],
    },
    "C14": {
        "pkg": "c14", "bin": True,
        "technique": "rapid task/context sets run concurrently, sequentially, through the scheduler and through the CLI; invariant over "
                     "the ordered hook trace",
        "level_text": "1..8 tasks over 1..3 contexts (up succeeding/failing; tasks with/without before/after/condition, succeeding/failing) "
                      "are started behind a barrier, one after another, as parallel stages, or as CLI targets; every hook and command "
                      "appends a token to one trace file. Per context: exactly one `up` before every other token; failing `up` => no "
                      "task command and every Run errors; #before = #after = executions, and in every prefix #before >= #started tasks "
                      "and #after <= #ended tasks; sequential runs strictly before, task, after; exactly one `down` after everything, "
                      "none for unused contexts, also when a CLI target failed. In the cli part a target is a task run directly or a pipeline of 1..3 consecutive tasks chained by depends_on, mixed on one command line. Any of a context's four hook lists may be absent (drawn); `down` is due whenever the context was used, whether or not it has `up` commands. Part watch: a watcher's start-up run and 1..3 event runs each execute inside the context's before/after, up once. A drawn subset of the contexts has a failing down command. Modes cancel-up and cancel-before (two of seven api modes) cancel the runner while a context's up command or a context before hook is still running and then finish it: up and down at most once and bracketing everything else, nothing after a failed up, and every before hook that ran is paired with an after hook.",
        "level_note": "A task skipped by its own condition may or may not count as an execution for before/after; `down` after a failed "
                      "`up` may or may not run (statement silent).",
        "rule": "rapid cases; non-trivial = >= 2 tasks share a context in a concurrent mode, or a task has a hook/condition, or `up` fails; "
                "distinct = canonical JSON.",
        "assumptions": ["tokens are appended with printf >> (O_APPEND, atomic), so a global order exists across concurrent tasks"],
        "parts": [
            {"name": "api", "test": "TestAPI", "checks": {Q: 2400, T: 60000}, "shards": {Q: 8, T: 16}, "timeout": {Q: 400, T: 2400}},
            {"name": "cli", "test": "TestCLI", "checks": {Q: 240, T: 6000}, "shards": {Q: 8, T: 16}, "timeout": {Q: 400, T: 2400}},
            {"name": "watch", "test": "TestWatch", "kind": "plain", "shards": {Q: 6, T: 6}, "timeout": {Q: 400, T: 900}},
        ],
    },
    "C15": {
        "pkg": "c15", "bin": True,
        "technique": "grammar-based generation of configuration documents + structured tree mutation + byte-level mutation, in three "
                     "formats, at the binary level (crash oracle); thorough adds coverage-guided native fuzzing of internal/config",
        "level_text": "Schema-shaped documents (every section and key, right and wrong value kinds, references to existing and missing "
                      "names, imports of files/directories/other formats/themselves, env files with hostile lines) receive 0..3 tree "
                      "mutations (wrong type incl. null, delete, unknown key, duplicate), are emitted as YAML/JSON/TOML, optionally get "
                      "YAML anchors / merge keys / odd keys and a byte-level mutation (truncate, splice invalid UTF-8/NUL/BOM, replace "
                      "a byte by a syntax character); then list, validate, show <each task>, graph <each pipeline> must end within "
                      "10 s (40 s on the retry) with a plain exit status (not ended by a signal) and no panic / fatal error / goroutine dump. Stages draw depends_on from the stages declared before them, so accepted pipelines have edges (and `graph` draws them), besides the hostile forms. Contexts get odd `executable` shapes (scalars, lists, maps without bin), and the scalar alphabets hold blank-only strings.",
        "level_note": "URL imports are not exercised (no network). Native fuzzing (thorough) cannot be pinned to VERIF_SEED; its "
                      "reproducible unit is the saved input, replayed at binary level.",
        "rule": "rapid cases; non-trivial = the document carries at least one mutation; distinct = canonical JSON of all files. Classes: "
                "format x accepted/rejected x mutation kinds.",
        "assumptions": ["at most one watcher per document and 16 parallel processes (inotify instance limit 128 per user)"],
        "parts": [
            {"name": "grammar", "test": "TestGrammar", "checks": {Q: 12000, T: 240000}, "shards": {Q: 16, T: 16}, "timeout": {Q: 500, T: 3000}, "shrinktime": "40s"},
            {"name": "nativefuzz", "kind": "script", "script": "fuzz_c15.py", "skip": {Q: True, T: False}, "shards": {Q: 1, T: 1},
             "timeout": {Q: 900, T: 1500}, "env": {"VERIF_FUZZTIME": {Q: 20, T: 75}}},
        ],
    },
    "C18": {
        "pkg": "c18", "bin": True,
        "technique": "rapid valid configurations with exactly one injected broken reference and their unbroken twins, decided at the "
                     "binary level (metamorphic: break => rejected, repair => accepted and runnable)",
        "level_text": "Valid configurations (1..3 tasks, 1..4 pipelines with DAG dependencies, acyclic pipeline inclusion, optional "
                      "watcher, YAML/JSON/TOML) get exactly one break out of {stage->unknown task, stage->unknown pipeline, depends_on->"
                      "unknown stage, depends_on->stage of another pipeline, depends_on->name of a task or pipeline, self-dependency, watcher->unknown task, duplicate stage "
                      "name, pipeline inclusion cycle of length 1..3} at a drawn position: `list` must exit non-zero with a message and "
                      "`validate` must not say 'file is valid', without crashing. Unbroken configurations must be accepted and every "
                      "pipeline must run to exit 0 within 10 s (40 s on the retry) without a fatal log line. Break kind dupstage writes a stage twice (task or pipeline stage alike); pipelines may be included by several stages of the including pipeline. Break kind dep-blank: an empty or blank depends_on entry. The stage that closes an inclusion cycle has a drawn name. Break kind dep-padded: a stage name with blanks around it.",
        "level_note": "Commands of the generated tasks are `true`; what the pipelines do is not the subject here.",
        "rule": "rapid cases; every case is non-trivial; distinct = (break kind, position class, canonical JSON). Classes: break kind x "
                "position class, format.",
        "assumptions": ["a pipeline is included at most once (two stages scheduling the same graph object have no stated semantics)"],
        "parts": [
            {"name": "breaks", "test": "TestBreaks", "checks": {Q: 3200, T: 48000}, "shards": {Q: 16, T: 16}, "timeout": {Q: 500, T: 3000}, "shrinktime": "40s"},
        ],
    },
    "C17": {
        "pkg": "c17", "bin": True,
        "technique": "exhaustive enumeration of import graphs on <=3 files + rapid graphs on <=6 files with a reachability model; "
                     "exhaustive global/project splits; decided at the binary level",
        "level_text": "Every edge set (self-imports and cycles included) on 1..3 files in nested directories, and random structures on up "
                      "to 6 files (mixed YAML/JSON/TOML/.yml, relative paths with ../, directory imports, repeated imports), each file "
                      "defining a two-command task and a two-stage pipeline (imports are merged with slice append, so a double load is "
                      "visible). Loading must end within 10 s; with every reachable file intact exactly the reachable definitions are "
                      "present, each once; a missing or unparsable file inside the closure must make loading fail with a message, "
                      "outside it must not matter. All 64 splits of {2 tasks, 2 contexts, 2 variables} between the global and the "
                      "project file must leave everything available. File names may hold glob metacharacters. A broken file may also be a symbolic link to nothing (kind dangling): unreadable as a file import, and listed by a directory import like any other .yaml entry.",
        "level_note": "URL imports are not exercised (no network).",
        "rule": "exhaustive: 530 graphs (quick: a seventh of them also with one broken file at every position and both kinds; thorough: "
                "all); random: rapid; splits: 64. Non-trivial = cycle, diamond/repeated import, directory import, or a broken file inside "
                "the closure; every split except all-global/all-project. Distinct = canonical JSON.",
        "assumptions": ["a directory import loads the *.yaml files of that directory, not recursively (observed behaviour; README: 'directory')"],
        "parts": [
            {"name": "exhaustive", "test": "TestExhaustive", "kind": "plain", "shards": {Q: 16, T: 16}, "timeout": {Q: 500, T: 1800}},
            {"name": "random", "test": "TestRandom", "checks": {Q: 3200, T: 48000}, "shards": {Q: 16, T: 16}, "timeout": {Q: 500, T: 3000}},
            {"name": "splits", "test": "TestGlobalSplits", "kind": "plain", "shards": {Q: 8, T: 8}, "timeout": {Q: 300, T: 300}},
        ],
    },
    "C16": {
        "pkg": "c16", "bin": True,
        "technique": "grammar-based generation of abstract configurations serialised by three independent emitters; differential "
                     "oracle across YAML / JSON / TOML at the binary level",
        "level_text": "Abstract configurations covering the documented keys of tasks, stages, contexts and watchers (string-or-list "
                      "fields in both forms, durations as strings and integers, booleans, numeric scalars in string positions, nested "
                      "maps, an imported second file of the same format) are written as YAML, JSON and TOML; load verdict, `list`, "
                      "`show` of every task, `graph` of every pipeline and running every task and pipeline with --raw (exit status, "
                      "command output, per-stage summary lines with durations and colours removed, sorted) must agree pairwise. A quarter of the cases hold null values in env / variables maps and are compared between YAML and JSON only. Strings may hold characters beyond the BMP; half of the cases write JSON the ASCII-only way (surrogate-pair escapes). Numbers also appear in spellings that are not their shortest one (1.0, 2.50, 1e3), the same text in the three files.",
        "level_note": "Numeric scalars are integers |n| < 2^53 and short decimals (JSON numbers are doubles by definition); contexts with "
                      "`executable` are not generated; every YAML string is double-quoted so YAML 1.1 implicit typing cannot change content.",
        "rule": "rapid cases; non-trivial = at least one pipeline with >= 2 stages and (a scalar-form list field, or a duration, or an "
                "import); distinct = canonical JSON of the three texts.",
        "assumptions": ["the three emitters of harness/gen are correct serialisations of the same tree (trusted base of this check)"],
        "parts": [
            {"name": "formats", "test": "TestFormats", "checks": {Q: 480, T: 8000}, "shards": {Q: 16, T: 16}, "timeout": {Q: 500, T: 3000}, "shrinktime": "60s"},
        ],
    },
    "C20": {
        "pkg": "c20", "bin": True,
        "technique": "rapid trees x glob pattern sets against a reference glob matcher (differential), and rapid file-operation "
                     "histories against a running watcher with an invariant over the log its task appends to",
        "level_text": "select: trees (<= 3 levels, <= 12 files, dot-files) and 1..3 include / 0..2 exclude patterns over the grammar "
                      "literal | * | ? inside a segment | ** as a whole segment; the set of paths in the watcher's start-up debug "
                      "lines must equal {p : some include matches p and no exclude matches p} by an independent segment-wise matcher. "
                      "events: the watcher runs while the checker performs 1..6 operations (write, chmod, remove, rename) on observed, "
                      "excluded and unrelated files; every subscribed operation on an observed path must append a line with that "
                      "EventName and EventPath within 4 s (also the 2nd..6th), no line may carry an unsubscribed event or an "
                      "unobserved path. pairs: every operation kind on every observed file A followed by a write on every other "
                      "observed file B (names that are textual prefixes of one another included). The observed files include a dot-file and the content of a dot-directory. The select part's file may define further watchers (not run) with the same include patterns and other excludes. The events part also observes a directory as such and creates new files in it, mostly followed by an operation on the new file (a write right after the create is an event of its own).",
        "level_note": "Depends on the kernel's inotify delivery: extra lines of a subscribed type (a remove is preceded by an attribute "
                      "change) are accepted; a path selected only through 'X/**' matching X itself is accepted either way; a late event "
                      "is re-tried once with 12 s bounds.",
        "rule": "rapid cases. Non-trivial (select) = at least one path selected, one removed by an exclude, and a ** or ? in a pattern; "
                "(events) = at least 2 operations on observed paths of which one is unsubscribed. Distinct = canonical JSON.",
        "assumptions": ["patterns have no leading ./, no //, no trailing / (doublestar's behaviour there is undocumented)",
                        "at most 16 watcher processes at a time (inotify instance limit 128 per user)"],
        "parts": [
            {"name": "select", "test": "TestSelect", "checks": {Q: 1600, T: 32000}, "shards": {Q: 8, T: 16}, "timeout": {Q: 500, T: 3000}, "shrinktime": "40s"},
            {"name": "pairs", "test": "TestEventPairs", "kind": "plain", "shards": {Q: 12, T: 12}, "timeout": {Q: 600, T: 900}},
            {"name": "events", "test": "TestEvents", "checks": {Q: 32, T: 480}, "shards": {Q: 8, T: 16}, "timeout": {Q: 900, T: 3600}, "shrinktime": "30s"},
        ],
    },
}
