"""Declarative table: property -> harness package, parts (test functions), budgets per tier."""

Q, T = "quick", "thorough"

HOOK_COMMITS = ["c346870"]
NOT_APPLICABLE = {}

PROPS = {
    "C05": {
        "pkg": "c05", "bin": True,
        "technique": "exhaustive enumeration of all digraphs on <=4 stages x declaration orders + rapid random digraphs, "
                     "differential against Kahn's algorithm; same graphs through the CLI",
        "level_text": "Complete for every edge set on up to 4 stages in every declaration order (in-process API); sampled "
                      "beyond (n<=10) and at the binary level. An iff in both directions plus exact edge sets, so neither "
                      "a missed cycle nor a false cycle nor a lost/invented edge passes on the explored graphs.",
        "level_note": "Trusts the harness's 20-line Kahn cycle detector and the DOT output parser (node labels/edges) for the CLI part.",
        "rule": "exhaustive: every edge set (self-loops included) on n<=4 stages x every declaration order, "
                "sharded by edge-set index; random: rapid digraphs n<=10 with per-case density/back-edge mode and random "
                "declaration order; cli: the same generator (n<=7) written as YAML and decided by `taskctl list`/`graph`. "
                "Oracle: Kahn's algorithm. Non-trivial = at least 3 edges and a declaration order that is not a "
                "topological order; distinct = canonical JSON of (n, edges, order).",
        "assumptions": ["depends_on names only declared stages (dangling names belong to C18)",
                        "edges are compared as sets (a name listed twice in depends_on is not generated)"],
        "parts": [
            {"name": "exhaustive", "test": "TestExhaustive", "kind": "plain", "n": {Q: 4, T: 4},
             "shards": {Q: 6, T: 8}, "timeout": {Q: 300, T: 900}},
            {"name": "random", "test": "TestRandom", "checks": {Q: 60000, T: 1500000}, "shards": {Q: 6, T: 8},
             "timeout": {Q: 300, T: 1800}},
            {"name": "cli", "test": "TestCLI", "checks": {Q: 160, T: 4000}, "shards": {Q: 4, T: 8},
             "timeout": {Q: 300, T: 1800}},
        ],
    },
}
