#!/usr/bin/env python3
"""Validate MANIFEST.json and evidence/*.json against the schemas (run with python3-vt)."""
import glob, json, sys
import jsonschema
ok = True
def chk(path, schema):
    global ok
    try:
        jsonschema.validate(json.load(open(path)), json.load(open(schema)))
        print("ok   ", path)
    except Exception as e:  # noqa
        ok = False
        print("FAIL ", path, str(e)[:400])
chk("/verif/MANIFEST.json", "/root/.vp/MANIFEST.schema.json")
for p in sorted(glob.glob("/verif/evidence/*.json")):
    chk(p, "/root/.vp/EVIDENCE.schema.json")
sys.exit(0 if ok else 1)
