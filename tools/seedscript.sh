#!/bin/sh
# seedscript.sh ID CMD... : confirm a script demonstration in the sub-agent's scratch worktree /tmp/seed/ID:
# reset it to HEAD + patch, run CMD (expect non-zero), reverse the patch, run CMD again (expect zero).
id=$1; shift
w=${SEEDROOT:-/tmp/seed}/$id
cd $w || exit 2
git checkout -q -- . && git apply ${SEEDOUT:-/tmp/seedout}/$id/patch.diff || { echo "cannot prepare worktree"; exit 2; }
"$@" > /tmp/seedscript-$id-1.log 2>&1; a=$?
git apply -R ${SEEDOUT:-/tmp/seedout}/$id/patch.diff
"$@" > /tmp/seedscript-$id-2.log 2>&1; b=$?
[ $a -ne 0 ] && echo "demo with change: FAIL (expected) exit=$a" || echo "demo with change: PASS (unexpected)"
[ $b -eq 0 ] && echo "demo without change: PASS (expected)" || { echo "demo without change: FAIL (unexpected) exit=$b"; tail -5 /tmp/seedscript-$id-2.log; }
