#!/bin/sh
# mkregress.sh NAME DIFF ID [PART]: apply DIFF (a revert of a repair, a mutant or a seeded change) to /repo, run ./check ID,
# keep the first saved failing case as replays/regress/ID-NAME.json, restore /repo.
name=$1; diff=$(readlink -f "$2"); id=$3; part=$4
cd /repo || exit 2
git diff --quiet || { echo "/repo has local modifications"; exit 2; }
git apply "$diff" || { echo "APPLY-FAILED $name"; exit 2; }
trap "git -C /repo checkout -- . ; git -C /repo clean -fdq" EXIT
trap "exit 130" INT TERM HUP
find /verif/replays -maxdepth 1 -name "$id-*.json" -delete
(cd /verif && ./check $id ${part:+--part $part} > /tmp/mkregress.log 2>&1)
f=$(ls /verif/replays/$id-*.json 2>/dev/null | grep -v pending | head -1)
if [ -n "$f" ]; then mkdir -p /verif/replays/regress; cp "$f" /verif/replays/regress/$id-$name.json; echo "kept $id-$name.json: $(python3 -c "import json;print(json.load(open('$f'))['message'][:160].replace(chr(10),' '))")"; else echo "NO-FAILING-CASE for $name ($id)"; tail -3 /tmp/mkregress.log; fi
find /verif/replays -maxdepth 1 -name "$id-*.json" -delete
