#!/bin/sh
# seedimport.sh NAME SRCDIR DEMOPKG DEMORUN CHECKS...  : verify a seeded change independently, run the given
# checks against it, and file it under /verif/seeded/NAME (patch.diff, demo/, NOTES.md, results.txt).
name=$1; src=$2; pkg=$3; run=$4; shift 4
dst=/verif/seeded/$name
mkdir -p $dst
cp $src/patch.diff $dst/; cp -r $src/demo $dst/ 2>/dev/null; cp $src/NOTES.md $dst/ 2>/dev/null
rm -f $dst/demo/taskctl $dst/demo/*.log
{
  echo "# independent confirmation (fresh worktree of /repo HEAD $(git -C /repo log --format=%h -1))"
  /verif/tools/seedverify.sh $name $src $pkg "$run"
  echo "# checks against the change applied to /repo (restored afterwards)"
  SKIPTESTS=1 /verif/tools/runmut.sh $dst/patch.diff "$@" 2>&1 | grep -E "^==|FAILURE|INCONCL|KNOWN" | cut -c1-500
} | tee $dst/results.txt
