#!/usr/bin/env python3
"""Driver for the taskctl property checks.

  ./check <ID> [--tier quick|thorough] [--replay PATH]
  ./check --setup
  ./check --list

Exit status: 0 the property held on everything explored (KNOWN-FINDING lines possible),
1 with a line `VIOLATION property=<ID> replay=<path>`, 2 inconclusive (build failure, harness
time-out, truncated run).  Python standard library only.
"""
import glob
import json
import os
import re
import shutil
import signal
import subprocess
import sys
import tempfile
import time
from concurrent.futures import ThreadPoolExecutor

VERIF = os.path.dirname(os.path.dirname(os.path.abspath(__file__)))
REPO = os.environ.get("VERIF_REPO", "/repo")
HARNESS = os.path.join(VERIF, "harness")
sys.path.insert(0, os.path.join(VERIF, "tools"))
from props import PROPS  # noqa: E402

GOENV = dict(os.environ, GOFLAGS="-mod=mod", GOPROXY="off", GOSUMDB="off", GOTOOLCHAIN="local",
             CGO_ENABLED="0")
MAXPROCS = int(os.environ.get("VERIF_PROCS", "16"))


LIVE = set()


def _killall(signum, frame):
    for pid in list(LIVE):
        try:
            os.killpg(pid, signal.SIGKILL)
        except (ProcessLookupError, PermissionError):
            pass
    os._exit(2)


signal.signal(signal.SIGTERM, _killall)
signal.signal(signal.SIGINT, _killall)
signal.signal(signal.SIGHUP, _killall)


def log(*a):
    print(*a, flush=True)


def load_known():
    known = {}
    path = os.path.join(VERIF, "KNOWN_FINDINGS.txt")
    if not os.path.exists(path):
        return known
    for line in open(path):
        line = line.strip()
        m = re.match(r"known:\s+property=(\S+)\s+sig=(\S+)\s+(.*)", line)
        if m:
            known[(m.group(1), m.group(2))] = m.group(3)
    return known


def build_binary(scratch):
    out = os.path.join(scratch, "taskctl")
    env = dict(os.environ, GOPROXY="off", GOSUMDB="off", GOTOOLCHAIN="local", GOFLAGS="-mod=mod", CGO_ENABLED="0")
    # -mod=mod would be allowed to rewrite /repo/go.sum; the repository's own go.sum is complete, so use
    # the default module mode there.
    env.pop("GOFLAGS")
    p = subprocess.run(["go", "build", "-o", out, "./cmd/taskctl"], cwd=REPO, env=env,
                       stdout=subprocess.PIPE, stderr=subprocess.STDOUT, text=True)
    if p.returncode != 0:
        log("BUILD-FAILED taskctl binary:\n" + p.stdout)
        return None
    return out


def build_test(pkg, scratch):
    out = os.path.join(scratch, pkg + ".test")
    p = subprocess.run(["go", "test", "-c", "-tags", "verif", "-vet=off", "-o", out, "./" + pkg],
                       cwd=HARNESS, env=GOENV, stdout=subprocess.PIPE, stderr=subprocess.STDOUT, text=True)
    if p.returncode != 0 or not os.path.exists(out):
        log("BUILD-FAILED harness package %s:\n%s" % (pkg, p.stdout))
        return None
    return out


def tier_val(v, tier):
    if isinstance(v, dict):
        return v.get(tier, v.get("quick"))
    return v


class Shard:
    def __init__(self, part, idx, n, scratch):
        self.part, self.idx, self.n = part, idx, n
        base = os.path.join(scratch, "%s-%d" % (part["name"], idx))
        self.out = base + ".stats.json"
        self.fail = base + ".fail.json"
        self.pending = base + ".pending.json"
        self.logf = base + ".log"
        self.rc = None
        self.timed_out = False
        self.wall = 0.0
        self.requested = None
        self.passed = None


def run_shard(sh, testbin, prop_id, tier, seed, binpath, scratch, replay=None):
    part = sh.part
    env = dict(os.environ)
    tmp = os.path.join(scratch, "tmp-%s-%d" % (part["name"], sh.idx))
    os.makedirs(tmp, exist_ok=True)
    env.update({
        "VERIF_OUT": sh.out, "VERIF_FAIL": sh.fail, "VERIF_PENDING": sh.pending,
        "VERIF_SHARD": str(sh.idx), "VERIF_NSHARDS": str(sh.n), "VERIF_TIER": tier,
        "VERIF_SEED": str(seed), "VERIF_PROP": prop_id, "VERIF_PART": part["name"],
        "TMPDIR": tmp, "VERIF_REPO": REPO, "VERIF_DIR": VERIF,
    })
    env.pop("VERIF_REPLAY", None)
    if binpath:
        env["TASKCTL_BIN"] = binpath
    if "n" in part:
        env["VERIF_N"] = str(tier_val(part["n"], tier))
    for k, v in part.get("env", {}).items():
        env[k] = str(tier_val(v, tier))
    timeout = tier_val(part.get("timeout", {"quick": 600, "thorough": 3600}), tier)
    if part.get("kind") == "script":
        env["VERIF_C15_BIN"] = testbin
        args = [sys.executable, os.path.join(VERIF, "tools", part["script"])]
    else:
        args = [testbin, "-test.run", "^%s$" % part["test"], "-test.timeout", "%ds" % (timeout + 60), "-test.count=1", "-test.v"]
    if replay:
        env["VERIF_REPLAY"] = replay
        args = [testbin, "-test.run", "^TestReplay$", "-test.timeout", "%ds" % (timeout + 60), "-test.v"]
    elif part.get("kind") == "script":
        pass
    elif part.get("kind", "rapid") == "rapid":
        checks = tier_val(part["checks"], tier)
        per = max(1, (checks + sh.n - 1) // sh.n)
        sh.requested = per
        rseed = (seed * 1000003 + sh.idx * 7919 + part.get("salt", 0) + 1) & 0x7FFFFFFFFFFFFFFF
        if rseed == 0:
            rseed = 1
        args += ["-rapid.checks=%d" % per, "-rapid.seed=%d" % rseed, "-rapid.nofailfile",
                 "-rapid.shrinktime=%s" % part.get("shrinktime", "30s")]
        if "steps" in part:
            args += ["-rapid.steps=%d" % tier_val(part["steps"], tier)]
    start = time.time()
    with open(sh.logf, "w") as lf:
        p = subprocess.Popen(args, cwd=tmp, env=env, stdout=lf, stderr=subprocess.STDOUT,
                             start_new_session=True)
        LIVE.add(p.pid)
        try:
            sh.rc = p.wait(timeout=timeout + 90)
        except subprocess.TimeoutExpired:
            sh.timed_out = True
            try:
                os.killpg(p.pid, signal.SIGKILL)
            except ProcessLookupError:
                pass
            p.wait()
            sh.rc = -9
    # children may have been left behind in the session
    try:
        os.killpg(p.pid, signal.SIGKILL)
    except (ProcessLookupError, PermissionError):
        pass
    LIVE.discard(p.pid)
    sh.wall = time.time() - start
    shutil.rmtree(tmp, ignore_errors=True)
    text = open(sh.logf, errors="replace").read()
    m = re.findall(r"OK, passed (\d+) tests", text)
    if m:
        sh.passed = sum(int(x) for x in m)
    return sh


def save_replay(prop_id, part, seed, idx, src):
    os.makedirs(os.path.join(VERIF, "replays"), exist_ok=True)
    dst = os.path.join(VERIF, "replays", "%s-%s-seed%d-shard%d.json" % (prop_id, part, seed, idx))
    shutil.copyfile(src, dst)
    return dst


def main():
    argv = sys.argv[1:]
    if not argv or argv[0] in ("-h", "--help"):
        print(__doc__)
        return 2
    if argv[0] == "--list":
        for k in sorted(PROPS):
            print(k, PROPS[k]["pkg"], [p["name"] for p in PROPS[k]["parts"]])
        return 0
    if argv[0] == "--setup":
        p = subprocess.run(["go", "vet", "-tags", "verif", "./..."], cwd=HARNESS, env=GOENV)
        if p.returncode != 0:
            return 2
        p = subprocess.run(["go", "build", "./..."], cwd=REPO,
                           env={k: v for k, v in GOENV.items() if k != "GOFLAGS"})
        return 0 if p.returncode == 0 else 2
    prop_id = argv[0]
    tier = os.environ.get("VERIF_TIER", "quick")
    replay = None
    only = None
    i = 1
    while i < len(argv):
        if argv[i] == "--tier":
            tier = argv[i + 1]; i += 2
        elif argv[i] == "--replay":
            replay = os.path.abspath(argv[i + 1]); i += 2
        elif argv[i] == "--part":
            only = argv[i + 1].split(","); i += 2
        else:
            log("unknown argument", argv[i]); return 2
    if tier not in ("quick", "thorough"):
        tier = "quick"
    if prop_id not in PROPS:
        log("unknown property", prop_id); return 2
    try:
        seed = int(os.environ.get("VERIF_SEED", "1"))
    except ValueError:
        seed = 1
    prop = PROPS[prop_id]
    t0 = time.time()
    scratch = tempfile.mkdtemp(prefix="verif-%s-" % prop_id)
    try:
        return run(prop_id, prop, tier, seed, replay, only, scratch, t0)
    finally:
        shutil.rmtree(scratch, ignore_errors=True)


def run(prop_id, prop, tier, seed, replay, only, scratch, t0):
    binpath = None
    if prop.get("bin", False):
        binpath = build_binary(scratch)
        if not binpath:
            return 2
    testbins = {}
    for pkg in sorted(set([prop["pkg"]] + [p["pkg"] for p in prop["parts"] if "pkg" in p])):
        testbins[pkg] = build_test(pkg, scratch)
        if not testbins[pkg]:
            return 2
    testbin = testbins[prop["pkg"]]
    known = load_known()

    if replay:
        part_name = json.load(open(replay)).get("part", "")
        parts = [p for p in prop["parts"] if p["name"] == part_name] or prop["parts"][:1]
        sh = Shard(parts[0], 0, 1, scratch)
        run_shard(sh, testbins[parts[0].get("pkg", prop["pkg"])], prop_id, tier, seed, binpath, scratch, replay=replay)
        text = open(sh.logf, errors="replace").read()
        sys.stdout.write(text[-6000:])
        if sh.timed_out:
            log("INCONCLUSIVE replay timed out"); return 2
        if sh.rc == 0:
            log("REPLAY property=%s passed (the saved case no longer fails)" % prop_id); return 0
        sig = ""
        if os.path.exists(sh.fail):
            sig = json.load(open(sh.fail)).get("sig", "")
        if (prop_id, sig) in known:
            log("KNOWN-FINDING: property=%s sig=%s %s" % (prop_id, sig, known[(prop_id, sig)])); return 0
        log("VIOLATION property=%s replay=%s" % (prop_id, replay)); return 1

    shards = []
    for part in prop["parts"]:
        if only and part["name"] not in only:
            continue
        if tier_val(part.get("skip", False), tier):
            continue
        n = tier_val(part.get("shards", {"quick": 4, "thorough": 16}), tier)
        for idx in range(n):
            shards.append(Shard(part, idx, n, scratch))
    with ThreadPoolExecutor(max_workers=MAXPROCS) as ex:
        list(ex.map(lambda s: run_shard(s, testbins[s.part.get("pkg", prop["pkg"])], prop_id, tier, seed, binpath, scratch), shards))

    # saved regression cases (shrunk failures of repaired defects and of seeded changes): replayed
    # through the same oracles without any generator, in both tiers
    regress = sorted(glob.glob(os.path.join(VERIF, "replays", "regress", prop_id + "-*.json"))) if not only or "regress" in only else []
    regress_failed = []

    def run_regress(path):
        part_name = json.load(open(path)).get("part", "")
        part = next((p for p in prop["parts"] if p["name"] == part_name), prop["parts"][0])
        sh = Shard(dict(part, name="regress-" + os.path.basename(path)[:-5]), 0, 1, scratch)
        run_shard(sh, testbins[part.get("pkg", prop["pkg"])], prop_id, tier, seed, binpath, scratch, replay=path)
        return path, sh

    if regress:
        with ThreadPoolExecutor(max_workers=MAXPROCS) as ex:
            for path, sh in ex.map(run_regress, regress):
                if sh.rc != 0:
                    sig = ""
                    if os.path.exists(sh.fail):
                        sig = json.load(open(sh.fail)).get("sig", "")
                    regress_failed.append((path, sig, sh))

    violations, known_lines, inconclusive = [], [], []
    agg = {"evaluations": 0, "hashes": set(), "classes": {}, "samples": [], "excluded": {}, "notes": [], "parts": {}}
    exhaustive_parts = []
    for sh in shards:
        pname = sh.part["name"]
        pa = agg["parts"].setdefault(pname, {"evaluations": 0, "distinct_nontrivial": set(), "shards": 0,
                                            "requested": 0, "passed": 0, "wall_s": 0.0})
        pa["shards"] += 1
        pa["wall_s"] = max(pa["wall_s"], round(sh.wall, 1))
        text = open(sh.logf, errors="replace").read()
        st = None
        if os.path.exists(sh.out):
            try:
                st = json.load(open(sh.out))
            except ValueError:
                st = None
        if st:
            agg["evaluations"] += st["evaluations"]
            pa["evaluations"] += st["evaluations"]
            hs = set(pname + ":" + h for h in (st.get("nontrivial") or []))
            agg["hashes"] |= hs
            pa["distinct_nontrivial"] |= hs
            for k, v in (st.get("classes") or {}).items():
                key = pname + "/" + k
                agg["classes"][key] = agg["classes"].get(key, 0) + v
            for k, v in (st.get("excluded") or {}).items():
                agg["excluded"][k] = agg["excluded"].get(k, 0) + v
            if len(agg["samples"]) < 14 and st.get("samples"):
                take = st["samples"][:2] if sh.idx else st["samples"][:4]
                agg["samples"] += [{"part": pname, "case": s} for s in take]
            for nline in st.get("notes") or []:
                if len(agg["notes"]) < 30:
                    agg["notes"].append(pname + ": " + nline)
            if st.get("exhaustive") and pname not in exhaustive_parts:
                exhaustive_parts.append(pname)
            for sig, what in (st.get("known") or {}).items():
                if (prop_id, sig) in known:
                    line = "KNOWN-FINDING: property=%s sig=%s %s" % (prop_id, sig, known[(prop_id, sig)])
                    if line not in known_lines:
                        known_lines.append(line)
                else:
                    # a probe reported a failure whose signature is not listed: that is a violation
                    p = os.path.join(scratch, "probe-%s-%d.json" % (pname, sh.idx))
                    json.dump({"property": prop_id, "part": pname, "sig": sig, "message": what, "case": None},
                              open(p, "w"))
                    violations.append((sh, p, sig, what))
        if sh.requested is not None:
            pa["requested"] += sh.requested
            pa["passed"] += sh.passed or 0
        if sh.rc == 0:
            if sh.requested is not None and (sh.passed or 0) < sh.requested:
                inconclusive.append("%s shard %d: rapid passed %s of %d requested cases (deadline?)" %
                                    (pname, sh.idx, sh.passed, sh.requested))
            continue
        # non-zero exit
        if sh.timed_out or "panic: test timed out" in text:
            if os.path.exists(sh.pending):
                dst = save_replay(prop_id, pname + "-pending", seed, sh.idx, sh.pending)
                inconclusive.append("%s shard %d: harness time-out; pending case kept at %s" % (pname, sh.idx, dst))
            else:
                inconclusive.append("%s shard %d: harness time-out" % (pname, sh.idx))
            continue
        if os.path.exists(sh.fail):
            f = json.load(open(sh.fail))
            violations.append((sh, sh.fail, f.get("sig", ""), f.get("message", "")))
        elif os.path.exists(sh.pending) and ("panic:" in text or "fatal error:" in text or sh.rc < 0):
            violations.append((sh, sh.pending, "process-died", "test process died while executing the case"))
        else:
            inconclusive.append("%s shard %d: test binary exited %s without a failing case\n%s" %
                                (pname, sh.idx, sh.rc, text[-1500:]))

    real = []
    for sh, path, sig, msg in violations:
        if (prop_id, sig) in known:
            line = "KNOWN-FINDING: property=%s sig=%s %s" % (prop_id, sig, known[(prop_id, sig)])
            if line not in known_lines:
                known_lines.append(line)
            continue
        dst = save_replay(prop_id, sh.part["name"], seed, sh.idx, path)
        real.append((dst, sig, msg, sh))

    for path, sig, sh in regress_failed:
        if sh.timed_out:
            inconclusive.append("regression case %s: harness time-out" % path)
        elif (prop_id, sig) in known:
            line = "KNOWN-FINDING: property=%s sig=%s %s" % (prop_id, sig, known[(prop_id, sig)])
            if line not in known_lines:
                known_lines.append(line)
        else:
            real.append((path, sig, "saved regression case fails again: " + open(sh.logf, errors="replace").read()[-600:], sh))
    if regress:
        agg["evaluations"] += len(regress)
        agg["parts"]["regress"] = {"evaluations": len(regress), "distinct_nontrivial": set(), "shards": 1, "requested": 0, "passed": 0, "wall_s": 0.0}
        for r in regress:
            agg["hashes"].add("regress:" + os.path.basename(r))
            agg["parts"]["regress"]["distinct_nontrivial"].add(os.path.basename(r))

    wall = time.time() - t0
    # evidence
    parts_out = {}
    for k, v in agg["parts"].items():
        parts_out[k] = dict(v, distinct_nontrivial=len(v["distinct_nontrivial"]))
    classes = dict(sorted(agg["classes"].items()))
    coverage = {
        "evaluations": agg["evaluations"],
        "distinct_nontrivial": len(agg["hashes"]),
        "rule": prop["rule"],
        "samples": agg["samples"] or ["(no sample recorded)"],
        "classes": classes,
        "parts": parts_out,
        "excluded_known_regions": agg["excluded"],
        "notes": agg["notes"],
        "exhaustive": bool(parts_out) and all(p in exhaustive_parts for p in parts_out),
        "exhaustive_parts": exhaustive_parts,
        "inconclusive": inconclusive,
        "known_findings_reported": known_lines,
    }
    ev = {
        "property_id": prop_id, "tier": tier, "seed": seed, "level": prop.get("level", "exploration"),
        "coverage": coverage, "assumptions": prop.get("assumptions", []), "wall_s": round(wall, 2),
        "violations": len(real),
    }
    if not only:
        os.makedirs(os.path.join(VERIF, "evidence"), exist_ok=True)
        tmp = os.path.join(VERIF, "evidence", prop_id + ".json.tmp")
        json.dump(ev, open(tmp, "w"), indent=1, ensure_ascii=False)
        os.replace(tmp, os.path.join(VERIF, "evidence", prop_id + ".json"))

    log("%s tier=%s seed=%d evaluations=%d distinct_nontrivial=%d wall=%.1fs" %
        (prop_id, tier, seed, agg["evaluations"], len(agg["hashes"]), wall))
    for k, v in parts_out.items():
        log("  part %-12s evals=%-8d nontrivial=%-7d shards=%d rapid=%s/%s wall=%.1fs" %
            (k, v["evaluations"], v["distinct_nontrivial"], v["shards"], v["passed"], v["requested"], v["wall_s"]))
    for line in known_lines:
        log(line)
    for line in agg["notes"][:10]:
        log("NOTE " + line)
    if real:
        seen = set()
        for k, (dst, sig, msg, sh) in enumerate(real):
            if k < 3:
                log("FAILURE part=%s shard=%d sig=%s: %s" % (sh.part["name"], sh.idx, sig, msg[:700]))
            if dst not in seen:
                log("VIOLATION property=%s replay=%s" % (prop_id, dst))
                seen.add(dst)
        return 1
    if inconclusive:
        for line in inconclusive:
            log("INCONCLUSIVE " + line)
        return 2
    return 0


if __name__ == "__main__":
    sys.exit(main())
