#!/usr/bin/env python3
"""Regenerate /verif/MANIFEST.json from tools/props.py (single source of truth)."""
import json, os, subprocess, sys
VERIF = os.path.dirname(os.path.dirname(os.path.abspath(__file__)))
sys.path.insert(0, os.path.join(VERIF, "tools"))
from props import PROPS, NOT_APPLICABLE, HOOK_COMMITS

all_ids = [json.loads(l)["id"] for l in open(os.path.join(VERIF, "properties.jsonl"))]
checks = []
for pid in all_ids:
    if pid not in PROPS:
        continue
    p = PROPS[pid]
    checks.append({
        "property_id": pid,
        "quick_cmd": "./check %s --tier quick" % pid,
        "thorough_cmd": "./check %s --tier thorough" % pid,
        "evidence_file": "/verif/evidence/%s.json" % pid,
        "replay_cmd_template": "./check %s --replay {path}" % pid,
        "engine": p["pkg"],
        "level_claimed": {"category": p.get("level", "exploration"), "text": p["level_text"],
                          "design_ref": "DESIGN.md section 4, " + pid},
        "level_note": p["level_note"],
        "technique": p["technique"],
    })
na = [{"property_id": pid, "reason": NOT_APPLICABLE.get(pid, "check not built yet in this round")}
      for pid in all_ids if pid not in PROPS]
engines = {}
for pid, p in PROPS.items():
    e = engines.setdefault(p["pkg"], {"name": p["pkg"], "path": "harness/" + p["pkg"], "serves_properties": [],
                                      "kind_free_text": "Go test package: rapid v1.3.0 properties + exhaustive enumerators + replay test"})
    e["serves_properties"].append(pid)
    # parts that live in another package of the harness module
    for part in p.get("parts", []):
        if part.get("pkg") and part["pkg"] != p["pkg"]:
            e2 = engines.setdefault(part["pkg"], {"name": part["pkg"], "path": "harness/" + part["pkg"], "serves_properties": [],
                                                  "kind_free_text": "Go test package: rapid v1.3.0 properties + replay test (system-level part, runs the binary or the real runner)"})
            if pid not in e2["serves_properties"]:
                e2["serves_properties"].append(pid)
m = {
    "version": 1,
    "setup_cmd": "./check --setup",
    "hooks": {
        "guard": "verif",
        "enable": "go test -tags verif (harness module replaces github.com/taskctl/taskctl => /repo); the taskctl binary itself is built without the tag",
        "baseline_off_cmd": "cd /repo && go test -vet=off -count=1 -timeout 25m ./...",
        "source_commits": HOOK_COMMITS,
        "add_only": True,
    },
    "engines": sorted(engines.values(), key=lambda e: e["name"]),
    "checks": checks,
    "not_applicable": na,
    "notes": "All checks are property-based tests / fuzzing (pgregory.net/rapid v1.3.0, exhaustive enumerators for the finite "
             "sub-domains, go native fuzzing in C15 thorough). ./check <ID> rebuilds the taskctl binary and the harness test "
             "binary from /repo's working tree on every run. Exit 2 = inconclusive (build failure / harness time-out).",
}
json.dump(m, open(os.path.join(VERIF, "MANIFEST.json"), "w"), indent=1)
print("MANIFEST.json: %d checks, %d not applicable" % (len(checks), len(na)))
