#!/usr/bin/env python3
"""seedmeta.py NAME PROPERTY 'needs...' 'caught-by note' : write /verif/seeded/NAME/meta.json from results.txt."""
import json, os, re, sys
name, prop, needs, note = sys.argv[1:5]
d = os.path.join("/verif/seeded", name)
res = open(os.path.join(d, "results.txt")).read()
checks = dict(re.findall(r"== patch\.diff (C\d+) exit=(\d)", res))
meta = {
    "property": prop,
    "source": "independent sub-agent given only the property text and a scratch worktree of /repo",
    "needs_to_manifest": needs,
    "confirmed": {
        "repo_suite_with_change": "PASS" if "repo suite with change: PASS" in res else "see results.txt",
        "demo_with_change": "FAIL" if "demo with change: FAIL" in res else "see results.txt",
        "demo_without_change": "PASS" if "demo without change: PASS" in res else "see results.txt",
    },
    "ran": "tools/seedimport.sh (tools/seedverify.sh in a fresh worktree; ./check <ID> --tier quick with the patch applied to /repo, restored afterwards)",
    "checks": {k: ("VIOLATION" if v == "1" else "passed" if v == "0" else "inconclusive") for k, v in checks.items()},
    "note": note,
}
json.dump(meta, open(os.path.join(d, "meta.json"), "w"), indent=1)
print(name, meta["checks"])
