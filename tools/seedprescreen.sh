#!/bin/sh
# seedprescreen.sh WORKTREE ID [ID...] : run quick checks against a scratch worktree of taskctl (with a change
# applied there) without touching /repo: a throw-away copy of /verif whose harness module points at WORKTREE.
# Only a pre-screen while /repo is busy; the filed results come from runmut.sh (apply to /repo, run, restore).
wt=$1; shift
alt=$(mktemp -d /tmp/verifalt-XXXXXX)
trap "rm -rf $alt" EXIT
rsync -a --exclude .git --exclude evidence --exclude seeded --exclude mutants /verif/ $alt/
mkdir -p $alt/evidence
sed -i "s#=> /repo#=> $wt#" $alt/harness/go.mod
for id in "$@"; do
  echo "== $id against $wt"
  (cd $alt && VERIF_REPO=$wt ./check $id 2>&1 | grep -E "FAILURE|VIOLATION|INCONCL|KNOWN|BUILD-FAILED|evaluations=" | cut -c1-400)
done
