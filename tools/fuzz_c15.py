#!/usr/bin/env python3
"""Coverage-guided native fuzzing of internal/config for C15 (thorough tier only).

Copies /repo (without .git) to a scratch directory, adds the fuzz test file, seeds the corpus with the
repository's fixtures and with documents of the C15 grammar, runs `go test -fuzz` per target, and turns a
crasher into a binary-level C15 case. Writes the same stats / fail files as the Go test binaries.
Environment: VERIF_OUT, VERIF_FAIL, VERIF_SEED, TMPDIR, VERIF_REPO, VERIF_DIR, VERIF_C15_BIN (c15 test binary),
TASKCTL_BIN, VERIF_FUZZTIME (seconds per target).
"""
import base64
import glob
import json
import os
import re
import shutil
import subprocess
import sys
import time

REPO = os.environ.get("VERIF_REPO", "/repo")
VERIF = os.environ.get("VERIF_DIR", "/verif")
TMP = os.environ.get("TMPDIR", "/tmp")
FUZZTIME = int(os.environ.get("VERIF_FUZZTIME", "75"))
SEED = int(os.environ.get("VERIF_SEED", "1"))
TARGETS = [("FuzzLoadYAML", ".yaml"), ("FuzzLoadJSON", ".json"), ("FuzzLoadTOML", ".toml"), ("FuzzEnvFile", "")]
start = time.time()
stats = {"part": "nativefuzz", "shard": 0, "evaluations": 0, "nontrivial": [], "classes": {}, "samples": [], "excluded": {},
         "known": {}, "notes": [], "exhaustive": False, "wall_s": 0}


def finish(code):
    stats["wall_s"] = time.time() - start
    if os.environ.get("VERIF_OUT"):
        json.dump(stats, open(os.environ["VERIF_OUT"], "w"))
    sys.exit(code)


def corpus_entry(data):
    # go test fuzz v1 encoding of one []byte argument
    out = []
    for b in data:
        if 32 <= b < 127 and b not in (34, 92):
            out.append(chr(b))
        else:
            out.append("\\x%02x" % b)
    return 'go test fuzz v1\n[]byte("%s")\n' % "".join(out)


def parse_entry(text):
    m = re.search(r'\[\]byte\((".*")\)\s*$', text, re.S)
    if not m:
        return None
    lit = m.group(1)
    try:
        p = subprocess.run(["go", "run", os.path.join(VERIF, "tools", "unquote.go"), lit], stdout=subprocess.PIPE, check=True)
        return p.stdout
    except Exception:
        return None


work = os.path.join(TMP, "c15fuzz")
shutil.rmtree(work, ignore_errors=True)
os.makedirs(work)
copy = os.path.join(work, "repo")
subprocess.run(["rsync", "-a", "--exclude", ".git", REPO + "/", copy + "/"], check=True)
shutil.copyfile(os.path.join(VERIF, "harness", "c15", "fuzz", "config_fuzz_test.go.txt"),
                os.path.join(copy, "internal", "config", "config_fuzz_test.go"))
corpus = os.path.join(copy, "internal", "config", "testdata", "fuzz")
os.makedirs(corpus, exist_ok=True)
# 1. grammar outputs
c15bin = os.environ.get("VERIF_C15_BIN")
if c15bin:
    env = dict(os.environ, VERIF_CORPUS_DIR=corpus, VERIF_OUT="", VERIF_FAIL="", VERIF_PENDING="")
    subprocess.run([c15bin, "-test.run", "^TestDumpCorpus$", "-rapid.checks=240", "-rapid.seed=%d" % (SEED * 7 + 1), "-rapid.nofailfile"],
                   env=env, stdout=subprocess.DEVNULL, stderr=subprocess.DEVNULL, cwd=work)
# 2. fixtures of the repository
fixtures = glob.glob(os.path.join(REPO, "internal/config/testdata/*")) + glob.glob(os.path.join(REPO, "docs/*.yaml")) + [os.path.join(REPO, "tasks.yaml")]
for f in fixtures:
    if not os.path.isfile(f):
        continue
    ext = os.path.splitext(f)[1]
    for tgt, e in TARGETS:
        if e and (e == ext or (e == ".yaml" and ext == ".yml")):
            os.makedirs(os.path.join(corpus, tgt), exist_ok=True)
            open(os.path.join(corpus, tgt, "fixture-" + os.path.basename(f)), "w").write(corpus_entry(open(f, "rb").read()))
seeded = {t: len(glob.glob(os.path.join(corpus, t, "*"))) for t, _ in TARGETS}
stats["notes"].append("seed corpus entries per target: %s" % seeded)

goenv = {k: v for k, v in os.environ.items() if k not in ("GOFLAGS",)}
goenv.update(GOPROXY="off", GOSUMDB="off", GOTOOLCHAIN="local", CGO_ENABLED="0", GOFLAGS="-mod=mod")
# the scratch copy has the repository's complete go.sum; -mod=mod may rewrite it there, which is harmless
procs = []
logs = {}
for tgt, ext in TARGETS:
    logf = os.path.join(work, tgt + ".log")
    logs[tgt] = logf
    p = subprocess.Popen(["go", "test", "-tags", "verif", "-vet=off", "-run", "^$", "-fuzz", "^%s$" % tgt, "-fuzztime", "%ds" % FUZZTIME,
                          "-parallel", "4", "-fuzzminimizetime", "3s", "./internal/config/"],
                         cwd=copy, env=goenv, stdout=open(logf, "w"), stderr=subprocess.STDOUT)
    procs.append((tgt, ext, p))
crashers = []
build_failed = False
for tgt, ext, p in procs:
    try:
        rc = p.wait(timeout=FUZZTIME * 4 + 600)
    except subprocess.TimeoutExpired:
        p.kill()
        stats["notes"].append("%s: fuzzing did not stop in time" % tgt)
        continue
    text = open(logs[tgt], errors="replace").read()
    execs = [int(x) for x in re.findall(r"execs: (\d+)", text)]
    interesting = [int(x) for x in re.findall(r"new interesting: \d+ \(total: (\d+)\)", text)]
    n = max(execs) if execs else 0
    m = max(interesting) if interesting else 0
    stats["evaluations"] += n
    stats["classes"]["target=%s execs" % tgt] = n
    stats["classes"]["target=%s corpus entries that reached new coverage" % tgt] = m
    stats["nontrivial"] += ["%s-%d" % (tgt, i) for i in range(m)]
    if rc != 0:
        if "Failing input written to" in text or "--- FAIL" in text:
            new = [f for f in glob.glob(os.path.join(corpus, tgt, "*")) if not os.path.basename(f).startswith(("gen-", "fixture-"))]
            for name in re.findall(r"--- FAIL: %s/(\S+)" % tgt, text):  # a seed of the corpus fails
                if os.path.exists(os.path.join(corpus, tgt, name)):
                    new.append(os.path.join(corpus, tgt, name))
            if not new:
                build_failed = True
                stats["notes"].append("%s: go test failed but no failing input was found: %s" % (tgt, text[-600:]))
            crashers.append((tgt, ext, new, text))
        else:
            build_failed = True
            stats["notes"].append("%s: go test exited %d: %s" % (tgt, rc, text[-600:]))

violation = None
for tgt, ext, files, text in crashers:
    for f in files:
        data = parse_entry(open(f, errors="replace").read())
        if data is None:
            stats["notes"].append("%s: crasher %s could not be decoded" % (tgt, f))
            continue
        if re.search(rb"(env_file|import)[^\n]*['\"\s:\[]/(dev|proc|sys)/", data):
            stats["excluded"]["crasher names a device path outside the work directory"] = stats["excluded"].get("crasher names a device path outside the work directory", 0) + 1
            continue
        files_map = {"main" + (ext or ".yaml"): base64.b64encode(data).decode()}
        if tgt == "FuzzEnvFile":
            files_map = {"main.yaml": base64.b64encode(b'tasks:\n  t:\n    command: "true"\n    env_file: "envf"\n').decode(),
                         "envf": base64.b64encode(data).decode()}
        else:
            files_map.update({
                "imp.yaml": base64.b64encode(b"tasks:\n  imported:\n    command: echo\n").decode(),
                "imp.json": base64.b64encode(b'{"tasks": {"imported": {"command": "echo"}}}').decode(),
                "envf": base64.b64encode(b"A=1\n\nnoeq\nB=2=3\n").decode(),
                "impdir/x.yaml": base64.b64encode(b"tasks:\n  fromdir:\n    command: echo\n").decode()})
        case = {"files": files_map, "main": "main" + (ext or ".yaml"), "show": ["t", "t0", "imported"], "graph": ["p0"],
                "mutations": ["native-fuzz:" + tgt], "format": (ext or ".yaml")[1:]}
        m = re.search(r"(panic: [^\n]*|fatal error: [^\n]*)", text)
        violation = {"property": "C15", "part": "nativefuzz", "sig": "",
                     "message": "native fuzzing of %s found a crashing input: %s" % (tgt, m.group(1) if m else "see log"), "case": case}
        break
    if violation:
        break

shutil.rmtree(work, ignore_errors=True)
if violation:
    # confirm at the binary level before reporting
    confirmed = True
    if c15bin and os.environ.get("TASKCTL_BIN"):
        rp = os.path.join(TMP, "c15fuzz-replay.json")
        json.dump(violation, open(rp, "w"))
        env = dict(os.environ, VERIF_REPLAY=rp, VERIF_OUT="", VERIF_FAIL="", VERIF_PENDING="")
        p = subprocess.run([c15bin, "-test.run", "^TestReplay$"], env=env, stdout=subprocess.PIPE, stderr=subprocess.STDOUT, text=True)
        confirmed = p.returncode != 0
        if not confirmed:
            stats["notes"].append("an in-process crasher did not reproduce through the binary: " + violation["message"])
    if confirmed:
        if os.environ.get("VERIF_FAIL"):
            json.dump(violation, open(os.environ["VERIF_FAIL"], "w"), indent=1)
        print("native fuzzing:", violation["message"])
        finish(1)
if build_failed:
    print("native fuzzing: go test failed without a crasher\n" + "\n".join(stats["notes"][-3:]))
    finish(3)
finish(0)
