#!/usr/bin/env python3
"""mkmut.py NAME FILE <<< 'OLD\n=====\nNEW'  : create /verif/mutants/NAME.diff replacing OLD by NEW in /repo/FILE
(the diff is produced without touching /repo)."""
import sys, os, subprocess, tempfile
name, rel = sys.argv[1], sys.argv[2]
old, new = sys.stdin.read().split("\n=====\n")
new = new.rstrip("\n")
src = open(os.path.join("/repo", rel)).read()
if src.count(old) != 1:
    sys.exit("pattern occurs %d times in %s" % (src.count(old), rel))
with tempfile.TemporaryDirectory() as d:
    a = os.path.join(d, "a", rel); b = os.path.join(d, "b", rel)
    os.makedirs(os.path.dirname(a)); os.makedirs(os.path.dirname(b))
    open(a, "w").write(src); open(b, "w").write(src.replace(old, new))
    p = subprocess.run(["diff", "-u", "a/" + rel, "b/" + rel], cwd=d, stdout=subprocess.PIPE, text=True)
    path = "/verif/mutants/%s.diff" % name
    mode = "a" if os.path.exists(path) and "--append" in sys.argv else "w"
    open(path, mode).write(p.stdout)
print("wrote", name)
