//go:build ignore

// unquote prints the bytes of the Go string literal given as its argument.
package main

import (
	"os"
	"strconv"
)

func main() {
	s, err := strconv.Unquote(os.Args[1])
	if err != nil {
		os.Exit(1)
	}
	os.Stdout.WriteString(s)
}
