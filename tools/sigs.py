#!/usr/bin/env python3
"""Summarise crash signatures in /verif/replays/C15-*.json (panic message + first taskctl frame)."""
import glob, json, re, collections
c = collections.Counter()
for f in glob.glob('/verif/replays/C1[5678]-*.json'):
    m = json.load(open(f))['message']
    pm = re.search(r'(panic: [^\n]*|fatal error: [^\n]*|did not end[^\n]*)', m)
    fr = re.findall(r'(github.com/taskctl/taskctl/[^\s(]+)[^\n]*\n\s+(/repo/[^\s]+)', m)
    c[(pm.group(1)[:90] if pm else m[:90]) + ' @ ' + (fr[0][1] if fr else '?')] += 1
for k, v in c.most_common():
    print(v, k)
