#!/usr/bin/env python3
"""Regenerate the table at the end of DESIGN.md section 12 from seeded/*/meta.json."""
import glob, json, os, re
p = '/verif/DESIGN.md'
s = open(p).read()
rows = []
for d in sorted(glob.glob('/verif/seeded/*/meta.json')):
    m = json.load(open(d)); name = os.path.basename(os.path.dirname(d))
    checks = ', '.join('%s %s' % (k, 'V' if v == 'VIOLATION' else v) for k, v in m['checks'].items())
    rows.append('| %s | %s | %s | %s |' % (name, m['needs_to_manifest'].replace('|', '/'), checks, m['note'].replace('|', '/')))
head = '| Seed | Needs | Checks (final) | History |\n|---|---|---|---|\n'
i = s.index(head)
j = s.index('## 13. False alarms corrected')
s = s[:i] + head + '\n'.join(rows) + '\n\n' + s[j:]
open(p, 'w').write(s)
print(len(rows), 'seeds')
