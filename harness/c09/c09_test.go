// Package c09 decides C09: environment and working directory precedence, at the binary level.
package c09

import (
	"encoding/json"
	"fmt"
	"os"
	"path/filepath"
	"strings"
	"testing"

	"pgregory.net/rapid"

	"verif/harness/cli"
	"verif/harness/drv"
	"verif/harness/gen"
)

func TestMain(m *testing.M) { drv.Main(m) }

// levels, lowest to highest precedence
var levels = []string{"parent", "context", "envfile", "task", "stage", "variation"}

// EnvCase: the name FOO is defined at the levels in Mask (bit i = levels[i]); the value at level i is
// Ranks[i]+"_"+levels[i], so Ranks decides how the values sort against each other.
type EnvCase struct {
	Mask    int      `json:"mask"`
	Ranks   []string `json:"ranks"`
	AsStage bool     `json:"as_stage"`
	Hooks   bool     `json:"hooks"` // also print from before/after hooks (levels up to task/stage apply there)
	// Empty: levels (bits as in Mask) whose value is the empty string - a value like any other: a level that
	// defines the name as empty still wins over lower levels
	Empty int `json:"empty,omitempty"`
}

func (c EnvCase) canon() string { b, _ := json.Marshal(c); return string(b) }

func (c EnvCase) nontrivial() bool {
	top := -1
	for i := 0; i < 6; i++ {
		if c.Mask&(1<<i) != 0 {
			top = i
		}
	}
	n := 0
	for i := 0; i < top; i++ {
		if c.Mask&(1<<i) != 0 {
			n++
			if c.Ranks[i] > c.Ranks[top] || c.Empty&(1<<top) != 0 {
				return true
			}
		}
	}
	return false
}

func runEnv(c EnvCase, dir string) error {
	os.MkdirAll(filepath.Join(dir, "home"), 0o755)
	val := func(i int) string {
		if c.Empty&(1<<i) != 0 {
			return ""
		}
		return c.Ranks[i] + "_" + levels[i]
	}
	has := func(i int) bool { return c.Mask&(1<<i) != 0 }
	// besides OTHER, the parent environment holds names that nothing overrides but that resemble names which are
	// set on the way: the layered name in another case and as a prefix / suffix of other names, and case variants of
	// the names the runner sets itself
	line := `printf '%s FOO=%%s OTHER=%%s TN=%%s\n' "$FOO" "$OTHER" "$TASK_NAME"; printf '%s NEAR=%%s\n' "$foo,$Foo,$FOO_X,$XFOO,$task_name,$args"; printf '%s EQ=[%%s][%%s][%%s]\n' "$EQ1" "$EQ2" "$EQ3"`
	task := gen.Map{{K: "command", V: gen.List{fmt.Sprintf(line, "CMD", "CMD", "CMD")}}}
	if c.Hooks {
		task = task.Set("before", gen.List{fmt.Sprintf(line, "BEFORE", "BEFORE", "BEFORE")})
		task = task.Set("after", gen.List{fmt.Sprintf(line, "AFTER", "AFTER", "AFTER")})
	}
	cfg := gen.Map{}
	if has(1) {
		cfg = cfg.Set("contexts", gen.Map{{K: "cx", V: gen.Map{{K: "env", V: gen.Map{{K: "FOO", V: val(1)}}}}}})
		task = task.Set("context", "cx")
	}
	if has(2) {
		os.WriteFile(filepath.Join(dir, "envf"), []byte("UNRELATED=1\nFOO="+val(2)+"\n"), 0o644)
		task = task.Set("env_file", "envf")
	}
	if has(3) {
		task = task.Set("env", gen.Map{{K: "FOO", V: val(3)}})
	}
	if has(5) {
		// a second variation that does not mention the name: its commands see what the levels below give
		task = task.Set("variations", gen.List{gen.Map{{K: "FOO", V: val(5)}}, gen.Map{{K: "VONLY", V: "1"}}})
	}
	cfg = cfg.Set("tasks", gen.Map{{K: "tk", V: task}})
	stage := gen.Map{{K: "task", V: "tk"}}
	if has(4) {
		stage = stage.Set("env", gen.Map{{K: "FOO", V: val(4)}})
	}
	cfg = cfg.Set("pipelines", gen.Map{{K: "pp", V: gen.List{stage}}})
	os.WriteFile(filepath.Join(dir, "t.yaml"), []byte(gen.YAML(cfg)), 0o644)
	extra := []string{"OTHER=passthru value", "foo=p1", "Foo=p2", "FOO_X=p3", "XFOO=p4", "task_name=p5", "args=p6",
		// inherited values that contain '=' themselves
		"EQ1=-Dmode=fast -Dlevel=3", "EQ2==", "EQ3=abc="}
	const eqWant = "EQ=[-Dmode=fast -Dlevel=3][=][abc=]\n"
	const nearWant = "NEAR=p1,p2,p3,p4,p5,p6\n"
	if has(0) {
		extra = append(extra, "FOO="+val(0))
	}
	env := cli.Env{Bin: drv.Bin(), Dir: dir, Home: filepath.Join(dir, "home"), Extra: extra}
	target := "tk"
	argv := []string{"-c", "t.yaml", "--raw", "tk"}
	if c.AsStage {
		// the pipeline first, then the same task directly in the same invocation: the direct run must see
		// the task's own layering, without the stage level
		target = "pp tk"
		argv = []string{"-c", "t.yaml", "--raw", "pp", "tk"}
	}
	r := env.Run(argv...)
	topHook := -1
	for i := 0; i < 5; i++ { // hooks run outside the variations
		if has(i) {
			topHook = i
		}
	}
	want := func(tag string, lvl int) string {
		v := ""
		if lvl >= 0 {
			v = val(lvl)
		}
		return fmt.Sprintf("%s FOO=%s OTHER=passthru value TN=tk\n", tag, v)
	}
	if r.Exit != 0 || r.Crashed() {
		return fmt.Errorf("taskctl %s: exit %d timedOut=%v stderr %q", target, r.Exit, r.TimedOut, r.Stderr)
	}
	// the CMD lines in order: per execution one line per variation (the second variation does not set the name)
	topOf := func(levels ...int) int {
		t := -1
		for _, i := range levels {
			if has(i) {
				t = i
			}
		}
		return t
	}
	var wantSeq []string
	if c.AsStage {
		wantSeq = append(wantSeq, want("CMD", topOf(0, 1, 2, 3, 4, 5)))
		if has(5) {
			wantSeq = append(wantSeq, want("CMD", topOf(0, 1, 2, 3, 4)))
		}
		wantSeq = append(wantSeq, want("CMD", topOf(0, 1, 2, 3, 5)))
		if has(5) {
			wantSeq = append(wantSeq, want("CMD", topOf(0, 1, 2, 3)))
		}
	} else {
		wantSeq = append(wantSeq, want("CMD", topOf(0, 1, 2, 3, 5)))
		if has(5) {
			wantSeq = append(wantSeq, want("CMD", topOf(0, 1, 2, 3)))
		}
	}
	var gotSeq []string
	for _, l := range strings.Split(r.Stdout, "\n") {
		if strings.HasPrefix(l, "CMD FOO=") {
			gotSeq = append(gotSeq, l+"\n")
		}
	}
	if strings.Join(gotSeq, "") != strings.Join(wantSeq, "") {
		return fmt.Errorf("levels %v defined (as stage then direct: %v): the commands must see, in order, %q (the highest level present for each execution and variation; the second variation does not set the name), got %q; stdout %q",
			present(c.Mask), c.AsStage, wantSeq, gotSeq, r.Stdout)
	}
	for _, tag := range []string{"CMD", "BEFORE", "AFTER"} {
		if n := strings.Count(r.Stdout, tag+" NEAR="); n != strings.Count(r.Stdout, tag+" "+nearWant) {
			return fmt.Errorf("levels %v defined: parent variables that nothing overrides (foo, Foo, FOO_X, XFOO, task_name, args = p1..p6) must pass through unchanged: want every %q line to read %q, stdout %q", present(c.Mask), tag+" NEAR", nearWant, r.Stdout)
		}
	}
	for _, tag := range []string{"CMD", "BEFORE", "AFTER"} {
		if n := strings.Count(r.Stdout, tag+" EQ="); n != strings.Count(r.Stdout, tag+" "+eqWant) || (tag == "CMD" && n == 0) {
			return fmt.Errorf("levels %v defined: inherited values containing '=' must reach the commands unchanged: want every %q line to read %q, stdout %q", present(c.Mask), tag+" EQ", eqWant, r.Stdout)
		}
	}
	if !strings.Contains(r.Stdout, "CMD "+nearWant) {
		return fmt.Errorf("levels %v defined: the command printed no NEAR line: stdout %q", present(c.Mask), r.Stdout)
	}
	if c.Hooks {
		for _, tag := range []string{"BEFORE", "AFTER"} {
			if !strings.Contains(r.Stdout, want(tag, topHook)) {
				return fmt.Errorf("levels %v defined: the %s hook must print %q, stdout %q", present(c.Mask), tag, want(tag, topHook), r.Stdout)
			}
		}
	}
	return nil
}

func present(mask int) []string {
	var o []string
	for i, l := range levels {
		if mask&(1<<i) != 0 {
			o = append(o, l)
		}
	}
	return o
}

// TestEnv: one rapid case = one permutation of value ranks and one run mode; all 63 subsets of the
// six levels (31 for a direct run, which has no stage level) are exercised for it.
func TestEnv(t *testing.T) {
	root := t.TempDir()
	k := 0
	rapid.Check(t, func(rt *rapid.T) {
		ranks := rapid.Permutation([]string{"a", "c", "e", "g", "m", "z"}).Draw(rt, "ranks")
		asStage := rapid.Bool().Draw(rt, "as_stage")
		hooks := rapid.IntRange(0, 3).Draw(rt, "hooks") == 0
		empty := 0
		if rapid.Bool().Draw(rt, "some-values-empty") {
			empty = rapid.IntRange(1, 63).Draw(rt, "empty-levels")
		}
		for mask := 1; mask < 64; mask++ {
			if !asStage && mask&(1<<4) != 0 {
				continue
			}
			c := EnvCase{Mask: mask, Ranks: ranks, AsStage: asStage, Hooks: hooks, Empty: empty & mask}
			if c.Empty != 0 {
				drv.Class("a level defines the empty value")
			}
			k++
			dir := filepath.Join(root, fmt.Sprint("c", k))
			cls := []string{fmt.Sprintf("levels-present=%d", len(present(mask)))}
			if asStage {
				cls = append(cls, "as-stage")
			} else {
				cls = append(cls, "direct")
			}
			drv.Eval(cls...)
			if c.nontrivial() {
				drv.NonTrivial(c.canon())
			}
			if mask == 45 {
				drv.Sample(c)
			}
			err := runEnv(c, dir)
			os.RemoveAll(dir)
			if err != nil {
				drv.Fail(rt, "env", "", c, "%v; case %s", err, c.canon())
			}
		}
	})
}

// DirCase: which of the three dir levels are given, where taskctl is started, how the task runs.
type DirCase struct {
	Stage   bool `json:"stage_dir"`
	Task    bool `json:"task_dir"`
	Ctx     bool `json:"context_dir"`
	FromSub bool `json:"from_sub"`
	AsStage bool `json:"as_stage"`
	Tmpl    int  `json:"task_dir_form"` // 0 absolute literal, 1 {{.Root}}/… (project root only), 2 {{ .base }}/… task variable
	Dot     int  `json:"dot,omitempty"` // 1: the stage dir is written ".", 2: the task dir is written "." (= the start directory, explicitly given)
}

func (c DirCase) canon() string { b, _ := json.Marshal(c); return "dir:" + string(b) }

func runDir(c DirCase, dir string) error {
	dir, _ = filepath.EvalSymlinks(dir)
	for _, d := range []string{"home", "sub", "d_stage", "d_task", "d_ctx"} {
		os.MkdirAll(filepath.Join(dir, d), 0o755)
	}
	line := `printf '%s=%%s\n' "$(/bin/pwd -P)"`
	task := gen.Map{
		{K: "command", V: gen.List{fmt.Sprintf(line, "CMD1"), fmt.Sprintf(line, "CMD2")}},
		{K: "before", V: gen.List{fmt.Sprintf(line, "BEFORE")}},
		{K: "after", V: gen.List{fmt.Sprintf(line, "AFTER")}},
		{K: "variables", V: gen.Map{{K: "base", V: dir}}},
	}
	cfg := gen.Map{}
	if c.Ctx {
		cfg = cfg.Set("contexts", gen.Map{{K: "cx", V: gen.Map{{K: "dir", V: filepath.Join(dir, "d_ctx")}}}})
		task = task.Set("context", "cx")
	}
	if c.Task {
		switch c.Tmpl {
		case 1:
			task = task.Set("dir", "{{.Root}}/d_task")
		case 2:
			task = task.Set("dir", "{{ .base }}/d_task")
		default:
			task = task.Set("dir", filepath.Join(dir, "d_task"))
		}
		if c.Dot == 2 {
			task = task.Set("dir", ".")
		}
	}
	cfg = cfg.Set("tasks", gen.Map{{K: "tk", V: task}})
	stage := gen.Map{{K: "task", V: "tk"}}
	if c.Stage {
		stage = stage.Set("dir", filepath.Join(dir, "d_stage"))
		if c.Dot == 1 {
			stage = stage.Set("dir", ".")
		}
	}
	cfg = cfg.Set("pipelines", gen.Map{{K: "pp", V: gen.List{stage}}})
	os.WriteFile(filepath.Join(dir, "t.yaml"), []byte(gen.YAML(cfg)), 0o644)
	env := cli.Env{Bin: drv.Bin(), Dir: dir, Home: filepath.Join(dir, "home")}
	cfgArg := "t.yaml"
	start := dir
	if c.FromSub {
		env.Dir = filepath.Join(dir, "sub")
		start = env.Dir
		cfgArg = "../t.yaml"
	}
	target := "tk"
	if c.AsStage {
		target = "pp"
	}
	r := env.Run("-c", cfgArg, "--raw", target)
	if r.Exit != 0 || r.Crashed() {
		return fmt.Errorf("taskctl %s: exit %d timedOut=%v stderr %q", target, r.Exit, r.TimedOut, r.Stderr)
	}
	want := start
	switch {
	case c.Stage && c.AsStage:
		want = filepath.Join(dir, "d_stage")
		if c.Dot == 1 {
			want = start // "." is a dir that was given: it wins over the task's and the context's
		}
	case c.Task:
		want = filepath.Join(dir, "d_task")
		if c.Dot == 2 {
			want = start
		}
	case c.Ctx:
		want = filepath.Join(dir, "d_ctx")
	}
	for _, tag := range []string{"BEFORE", "CMD1", "CMD2", "AFTER"} {
		if !strings.Contains(r.Stdout, tag+"="+want+"\n") {
			return fmt.Errorf("%s must run in %s (first present of stage dir, task dir, context dir, start directory): stdout %q", tag, want, r.Stdout)
		}
	}
	return nil
}

// TestDirs enumerates every subset of the three dir levels x start directory x run mode x the
// admissible forms of the task dir.
func TestDirs(t *testing.T) {
	root := t.TempDir()
	idx, nsh := drv.Shard()
	k := 0
	for m := 0; m < 8; m++ {
		for sub := 0; sub < 2; sub++ {
			for stage := 0; stage < 2; stage++ {
				for tmpl := 0; tmpl < 3; tmpl++ {
					c := DirCase{Stage: m&1 != 0, Task: m&2 != 0, Ctx: m&4 != 0, FromSub: sub == 1, AsStage: stage == 1, Tmpl: tmpl}
					if c.Stage && !c.AsStage {
						continue // a direct run has no stage
					}
					if !c.Task && tmpl != 0 {
						continue
					}
					if tmpl == 1 && c.FromSub {
						// {{.Root}} from a sub-directory: the code and the README disagree on what Root is and the
						// property does not settle it; the task dir is rendered from a task variable there
						continue
					}
					for dot := 0; dot < 3; dot++ {
						if dot == 1 && !(c.Stage && c.AsStage) || dot == 2 && (!c.Task || tmpl != 0) {
							continue
						}
						c.Dot = dot
						k++
						if k%nsh != idx {
							continue
						}
						dir := filepath.Join(root, fmt.Sprint("d", k))
						os.MkdirAll(dir, 0o755)
						drv.Eval(fmt.Sprintf("dir-levels=%d", bits(m)))
						if bits(m) >= 2 {
							drv.NonTrivial(c.canon())
						}
						drv.Sample(c)
						err := runDir(c, dir)
						os.RemoveAll(dir)
						if err != nil {
							drv.Fail(t, "dirs", "", c, "%v; case %s", err, c.canon())
						}
					}
				}
			}
		}
	}
	drv.SetExhaustive()
}

func bits(m int) int {
	n := 0
	for ; m > 0; m >>= 1 {
		n += m & 1
	}
	return n
}

func TestReplay(t *testing.T) {
	part, raw, ok := drv.ReplayFile()
	if !ok {
		t.Skip("no replay requested")
	}
	if part == "dirs" {
		var c DirCase
		if err := json.Unmarshal(raw, &c); err != nil {
			t.Fatal(err)
		}
		dir := t.TempDir()
		if err := runDir(c, dir); err != nil {
			drv.Fail(t, "dirs", "", c, "%v", err)
		}
		return
	}
	var c EnvCase
	if err := json.Unmarshal(raw, &c); err != nil {
		t.Fatal(err)
	}
	if err := runEnv(c, t.TempDir()); err != nil {
		drv.Fail(t, "env", "", c, "%v", err)
	}
}
