// Package c04r is the system-level part of C04: generated pipelines whose simultaneously eligible
// stages each wait for the others to be running, executed by the real runner through the binary.
// A scheduler OR a runner that serialises independent stages cannot complete them.
package c04r

import (
	"encoding/json"
	"fmt"
	"os"
	"path/filepath"
	"strings"
	"testing"
	"time"

	"pgregory.net/rapid"

	"verif/harness/cli"
	"verif/harness/drv"
	"verif/harness/gen"
)

func TestMain(m *testing.M) { drv.Main(m) }

// Stage of a layered pipeline: every stage of layer k depends on every stage of layer k-1, so the
// stages of one layer become eligible together.
type Stage struct {
	Layer    int    `json:"layer"`
	Task     string `json:"task"`                // task name (several stages may use the same task)
	ExportAs string `json:"export_as,omitempty"` // of the task
	Outcome  string `json:"outcome,omitempty"`   // "" ok | "fail-allowed" (stage allow_failure) : the next layer still runs
}

// Case is one pipeline.
type Case struct {
	Stages []Stage `json:"stages"`
	// Where the stage waits for the others of its layer: "" = in the task's command, "condition" = in the task's
	// condition, "before" = in the task's before hook (these two use one task per stage, with literal texts)
	Where string `json:"where,omitempty"`
	// Ctx: all tasks run in one named execution context that has before and after commands of its own
	Ctx bool `json:"ctx,omitempty"`
}

func (c Case) canon() string { b, _ := json.Marshal(c); return string(b) }

func (c Case) layers() [][]int {
	var ls [][]int
	for i, s := range c.Stages {
		for len(ls) <= s.Layer {
			ls = append(ls, nil)
		}
		ls[s.Layer] = append(ls[s.Layer], i)
	}
	return ls
}

func run(c Case, dir string, scale int) (err error, timing bool) {
	dir, _ = filepath.EvalSymlinks(dir)
	os.MkdirAll(filepath.Join(dir, "home"), 0o755)
	os.MkdirAll(filepath.Join(dir, "m"), 0o755)
	ls := c.layers()
	tasks := gen.Map{}
	exports := map[string]string{}
	for _, s := range c.Stages {
		if _, ok := tasks.Get(s.Task); ok || c.Where != "" {
			continue
		}
		// the command is the same for every stage of the task: it gets its identity and its wait list
		// from stage variables
		cmd := `touch {{ .mark }}; i=0; while ! { {{ .waitfor }}; }; do sleep 0.02; i=$((i+1)); if [ $i -gt {{ .limit }} ]; then printf 'TIMEOUT %s\n' '{{ .sid }}' >> ` + filepath.Join(dir, "trace") + `; exit 9; fi; done; printf 'MET %s\n' '{{ .sid }}' >> ` + filepath.Join(dir, "trace") + `; {{ .final }}`
		tk := gen.Map{{K: "command", V: gen.List{cmd}}}
		if s.ExportAs != "" {
			tk = tk.Set("exportAs", s.ExportAs)
			exports[s.Task] = s.ExportAs
		}
		tasks = tasks.Set(s.Task, tk)
	}
	var stages gen.List
	for i, s := range c.Stages {
		sid := fmt.Sprintf("s%d", i)
		var waits []string
		for _, j := range ls[s.Layer] {
			waits = append(waits, fmt.Sprintf("[ -f %s ]", filepath.Join(dir, "m", fmt.Sprintf("s%d", j))))
		}
		final := "true"
		st := gen.Map{{K: "name", V: sid}, {K: "task", V: s.Task}}
		if s.Outcome == "fail-allowed" {
			final = "exit 3"
			st = st.Set("allow_failure", true)
		}
		if c.Where != "" {
			// one task per stage; the waiting loop sits in its condition or its before hook
			tn := fmt.Sprintf("%s.%d", s.Task, i)
			trace := filepath.Join(dir, "trace")
			wait := fmt.Sprintf("touch %s; i=0; while ! { %s; }; do sleep 0.02; i=$((i+1)); if [ $i -gt %d ]; then printf 'TIMEOUT %s\n' >> %s; exit 9; fi; done",
				filepath.Join(dir, "m", sid), strings.Join(waits, " && "), 250*scale, sid, trace)
			tk := gen.Map{{K: "command", V: gen.List{fmt.Sprintf("printf 'MET %s\n' >> %s; %s", sid, trace, final)}}}
			if c.Where == "condition" {
				tk = tk.Set("condition", wait)
			} else {
				tk = tk.Set("before", gen.List{wait})
			}
			tasks = tasks.Set(tn, tk)
			st = gen.Map{{K: "name", V: sid}, {K: "task", V: tn}}
			if s.Outcome == "fail-allowed" {
				st = st.Set("allow_failure", true)
			}
		}
		if c.Where == "" {
			st = st.Set("variables", gen.Map{{K: "sid", V: sid}, {K: "mark", V: filepath.Join(dir, "m", sid)}, {K: "waitfor", V: strings.Join(waits, " && ")},
				{K: "limit", V: fmt.Sprint(250 * scale)}, {K: "final", V: final}})
		}
		if s.Layer > 0 {
			var deps gen.List
			for _, j := range ls[s.Layer-1] {
				deps = append(deps, fmt.Sprintf("s%d", j))
			}
			st = st.Set("depends_on", deps)
		}
		stages = append(stages, st)
	}
	if c.Ctx {
		tm := gen.Map{}
		for _, kv := range tasks {
			tm = tm.Set(kv.K, kv.V.(gen.Map).Set("context", "cx"))
		}
		tasks = tm
	}
	cfg := gen.Map{{K: "tasks", V: tasks}, {K: "pipelines", V: gen.Map{{K: "pp", V: stages}}}}
	if c.Ctx {
		cfg = cfg.Set("contexts", gen.Map{{K: "cx", V: gen.Map{{K: "before", V: gen.List{"true"}}, {K: "after", V: gen.List{"true"}}}}})
	}
	os.WriteFile(filepath.Join(dir, "t.yaml"), []byte(gen.YAML(cfg)), 0o644)
	env := cli.Env{Bin: drv.Bin(), Dir: dir, Home: filepath.Join(dir, "home"), Timeout: time.Duration(30*scale) * time.Second}
	r := env.Run("-c", "t.yaml", "--raw", "pp")
	if r.TimedOut {
		return fmt.Errorf("the pipeline did not end within %ds", 30*scale), true
	}
	if r.Crashed() {
		return fmt.Errorf("crashed: exit %d stderr %q", r.Exit, clip(r.Stderr)), false
	}
	b, _ := os.ReadFile(filepath.Join(dir, "trace"))
	met := strings.Count(string(b), "MET ")
	if strings.Contains(string(b), "TIMEOUT") || met != len(c.Stages) || r.Exit != 0 {
		return fmt.Errorf("stages that are eligible together must all be started without waiting for one another: exit %d, %d of %d stages met their layer within %.0fs; trace %q; stderr %q",
			r.Exit, met, len(c.Stages), 5.0*float64(scale), strings.ReplaceAll(string(b), "\n", " "), clip(r.Stderr)), true
	}
	return nil, false
}

func clip(s string) string {
	if len(s) > 600 {
		return s[:600] + "…"
	}
	return s
}

// task names that differ, but collide once upper-cased / reduced to identifier characters
var nameGroups = [][]string{{"build-app", "build.app", "BUILD_APP"}, {"test", "Test"}, {"deploy"}, {"lint:all", "lint all"}}

func genCase(rt *rapid.T) Case {
	var c Case
	c.Where = rapid.SampledFrom([]string{"", "", "condition", "before"}).Draw(rt, "where")
	c.Ctx = rapid.IntRange(0, 2).Draw(rt, "shared-context") == 0
	nl := rapid.IntRange(1, 3).Draw(rt, "layers")
	taskNames := []string{}
	for _, g := range nameGroups {
		taskNames = append(taskNames, g...)
	}
	used := map[string]string{}
	for l := 0; l < nl; l++ {
		w := rapid.IntRange(2, 4).Draw(rt, "width")
		for i := 0; i < w; i++ {
			s := Stage{Layer: l, Task: rapid.SampledFrom(taskNames).Draw(rt, "task")}
			if e, ok := used[s.Task]; ok {
				s.ExportAs = e
			} else {
				if rapid.IntRange(0, 3).Draw(rt, "export") == 0 {
					s.ExportAs = rapid.SampledFrom([]string{"OUT", "RESULT"}).Draw(rt, "exportAs")
				}
				used[s.Task] = s.ExportAs
			}
			if l < nl-1 && rapid.IntRange(0, 4).Draw(rt, "fail-allowed") == 0 {
				s.Outcome = "fail-allowed"
			}
			c.Stages = append(c.Stages, s)
		}
	}
	return c
}

func record(c Case) {
	ls := c.layers()
	shared, similar := false, false
	for _, l := range ls {
		seen := map[string]int{}
		norm := map[string]int{}
		for _, i := range l {
			seen[c.Stages[i].Task]++
			n := strings.ToUpper(strings.Map(func(r rune) rune {
				if r >= 'a' && r <= 'z' || r >= 'A' && r <= 'Z' || r >= '0' && r <= '9' {
					return r
				}
				return '_'
			}, c.Stages[i].Task))
			if c.Stages[i].ExportAs != "" {
				n = c.Stages[i].ExportAs
			}
			norm[n]++
		}
		for _, v := range seen {
			if v >= 2 {
				shared = true
			}
		}
		for _, v := range norm {
			if v >= 2 {
				similar = true
			}
		}
	}
	cls := []string{fmt.Sprintf("layers=%d", len(ls)), fmt.Sprintf("stages=%d", len(c.Stages)), "waiting-in=" + map[string]string{"": "command"}[c.Where] + c.Where}
	if shared {
		cls = append(cls, "one-task-in-two-concurrent-stages")
	}
	if similar {
		cls = append(cls, "concurrent-stages-with-colliding-output-names")
	}
	drv.Eval(cls...)
	drv.NonTrivial(c.canon())
}

func decide(t drv.TB, c Case, dir string) {
	err, timing := run(c, dir, 1)
	if err != nil && timing {
		drv.Class("retry-with-4x-bounds")
		os.RemoveAll(dir)
		os.MkdirAll(dir, 0o755)
		err2, _ := run(c, dir, 4)
		if err2 == nil {
			drv.Note("a rendezvous timed out once and succeeded with 4x bounds (machine load?): %v", err)
			return
		}
		err = err2
	}
	if err != nil {
		drv.Fail(t, "rendezvous", "", c, "%v; case %s", err, c.canon())
	}
}

func TestRendezvous(t *testing.T) {
	root := t.TempDir()
	k := 0
	rapid.Check(t, func(rt *rapid.T) {
		c := genCase(rt)
		k++
		dir := filepath.Join(root, fmt.Sprint("r", k))
		os.MkdirAll(dir, 0o755)
		defer os.RemoveAll(dir)
		record(c)
		drv.Sample(c)
		decide(rt, c, dir)
	})
}

func TestReplay(t *testing.T) {
	_, raw, ok := drv.ReplayFile()
	if !ok {
		t.Skip("no replay requested")
	}
	var c Case
	if err := json.Unmarshal(raw, &c); err != nil {
		t.Fatal(err)
	}
	decide(t, c, t.TempDir())
}
