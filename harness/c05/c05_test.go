// Package c05 decides C05: a pipeline is rejected as cyclic exactly when its dependencies form a
// cycle, and an accepted pipeline exposes exactly the declared edges.
package c05

import (
	"encoding/json"
	"errors"
	"fmt"
	"os"
	"path/filepath"
	"regexp"
	"sort"
	"strings"
	"testing"

	"github.com/taskctl/taskctl/pkg/scheduler"
	"github.com/taskctl/taskctl/pkg/task"
	"pgregory.net/rapid"

	"verif/harness/cli"
	"verif/harness/drv"
	"verif/harness/gen"
)

func TestMain(m *testing.M) { drv.Main(m) }

// Case is a digraph on stages s0..s(N-1); edge [i,j] means "sj depends_on si"; Order is the
// declaration order.
type Case struct {
	N     int      `json:"n"`
	Edges [][2]int `json:"edges"`
	Order []int    `json:"order"`
	CLI   bool     `json:"cli,omitempty"`
	Names []string `json:"names,omitempty"` // stage names (default s0, s1, ...): any distinct strings are valid names
}

// current case's names (set by the run functions; the helpers below use it)
var curNames []string

func (c Case) adj() [][]bool {
	a := make([][]bool, c.N)
	for i := range a {
		a[i] = make([]bool, c.N)
	}
	for _, e := range c.Edges {
		a[e[0]][e[1]] = true
	}
	return a
}

// cyclic is Kahn's algorithm: the oracle shares nothing with taskctl's DFS.
func cyclic(n int, adj [][]bool) bool {
	indeg := make([]int, n)
	for i := 0; i < n; i++ {
		for j := 0; j < n; j++ {
			if adj[i][j] {
				indeg[j]++
			}
		}
	}
	var q []int
	for i, d := range indeg {
		if d == 0 {
			q = append(q, i)
		}
	}
	seen := 0
	for len(q) > 0 {
		x := q[0]
		q = q[1:]
		seen++
		for j := 0; j < n; j++ {
			if adj[x][j] {
				indeg[j]--
				if indeg[j] == 0 {
					q = append(q, j)
				}
			}
		}
	}
	return seen != n
}

func name(i int) string {
	if i < len(curNames) {
		return curNames[i]
	}
	return fmt.Sprintf("s%d", i)
}

func set(xs []string) string {
	m := map[string]bool{}
	for _, x := range xs {
		m[x] = true
	}
	var o []string
	for x := range m {
		o = append(o, x)
	}
	sort.Strings(o)
	return strings.Join(o, ",")
}

// topoOrder reports whether the declaration order lists every stage after its dependencies.
func (c Case) topoOrder(adj [][]bool) bool {
	pos := make([]int, c.N)
	for p, j := range c.Order {
		pos[j] = p
	}
	for i := 0; i < c.N; i++ {
		for j := 0; j < c.N; j++ {
			if adj[i][j] && pos[i] >= pos[j] {
				return false
			}
		}
	}
	return true
}

func (c Case) canon() string { b, _ := json.Marshal(c); return string(b) }

func record(c Case, adj [][]bool, cyc bool) {
	cls := []string{fmt.Sprintf("n=%d", c.N)}
	if cyc {
		cls = append(cls, "cyclic")
	} else {
		cls = append(cls, "acyclic")
	}
	nontopo := !c.topoOrder(adj)
	if nontopo && !cyc {
		cls = append(cls, "acyclic-nontopo-order")
	}
	drv.Eval(cls...)
	if len(c.Edges) >= 3 && nontopo {
		drv.NonTrivial(c.canon())
	}
}

// runAPI is the in-process oracle.
func runAPI(c Case) error {
	curNames = c.Names
	adj := c.adj()
	want := cyclic(c.N, adj)
	record(c, adj, want)
	var stages []*scheduler.Stage
	for _, j := range c.Order {
		st := &scheduler.Stage{Name: name(j), Task: task.FromCommands("true")}
		for _, e := range c.Edges { // the order of the entries of depends_on is the order of Edges
			if e[1] == j {
				st.DependsOn = append(st.DependsOn, name(e[0]))
			}
		}
		stages = append(stages, st)
	}
	g, err := scheduler.NewExecutionGraph(stages...)
	if (err != nil) != want {
		return fmt.Errorf("graph is cyclic=%v but NewExecutionGraph returned err=%v", want, err)
	}
	if err != nil {
		if !errors.Is(err, scheduler.ErrCycleDetected) {
			return fmt.Errorf("rejected with an error that is not the cycle error: %v", err)
		}
		return nil
	}
	if len(g.Nodes()) != c.N {
		return fmt.Errorf("accepted graph has %d nodes, declared %d", len(g.Nodes()), c.N)
	}
	for j := 0; j < c.N; j++ {
		if _, ok := g.Nodes()[name(j)]; !ok {
			return fmt.Errorf("stage %s missing from Nodes()", name(j))
		}
		var deps, rdeps []string
		for i := 0; i < c.N; i++ {
			if adj[i][j] {
				deps = append(deps, name(i))
			}
			if adj[j][i] {
				rdeps = append(rdeps, name(i))
			}
		}
		if set(g.To(name(j))) != set(deps) {
			return fmt.Errorf("To(%s) = %v, declared depends_on = %v", name(j), g.To(name(j)), deps)
		}
		if set(g.From(name(j))) != set(rdeps) {
			return fmt.Errorf("From(%s) = %v, declared dependants = %v", name(j), g.From(name(j)), rdeps)
		}
	}
	return nil
}

var (
	nodeRe = regexp.MustCompile(`(n\d+)\[label="([^"]*)"\]`)
	edgeRe = regexp.MustCompile(`(n\d+)->(n\d+)`)
)

// runCLI writes the same graph as YAML and asks the binary.
func runCLI(c Case, dir string) error {
	curNames = c.Names
	adj := c.adj()
	want := cyclic(c.N, adj)
	record(c, adj, want)
	var stages gen.List
	for _, j := range c.Order {
		st := gen.Map{{K: "name", V: name(j)}, {K: "task", V: "t"}}
		var deps gen.List
		for _, e := range c.Edges {
			if e[1] == j {
				deps = append(deps, name(e[0]))
			}
		}
		if len(deps) > 0 {
			st = st.Set("depends_on", deps)
		}
		stages = append(stages, st)
	}
	cfg := gen.Map{
		{K: "tasks", V: gen.Map{{K: "t", V: gen.Map{{K: "command", V: gen.List{"true"}}}}}},
		{K: "pipelines", V: gen.Map{{K: "p", V: stages}}},
	}
	os.MkdirAll(filepath.Join(dir, "home"), 0o755)
	if err := os.WriteFile(filepath.Join(dir, "t.yaml"), []byte(gen.YAML(cfg)), 0o644); err != nil {
		return nil
	}
	env := cli.Env{Bin: drv.Bin(), Dir: dir, Home: filepath.Join(dir, "home")}
	r := env.Run("-c", "t.yaml", "list")
	if r.Crashed() {
		return fmt.Errorf("`list` crashed: exit %d timedOut=%v stderr %q", r.Exit, r.TimedOut, r.Stderr)
	}
	if want {
		if r.Exit == 0 {
			return fmt.Errorf("cyclic pipeline was accepted by `list` (exit 0)")
		}
		if !strings.Contains(r.Stderr+r.Stdout, "cycle detected") {
			return fmt.Errorf("cyclic pipeline rejected without a cycle error: %q", r.Stderr)
		}
		return nil
	}
	if r.Exit != 0 {
		return fmt.Errorf("acyclic pipeline rejected: exit %d stderr %q", r.Exit, r.Stderr)
	}
	g := env.Run("-c", "t.yaml", "graph", "p")
	if g.Exit != 0 || g.Crashed() {
		return fmt.Errorf("`graph p` failed: exit %d stderr %q", g.Exit, g.Stderr)
	}
	label := map[string]string{}
	for _, m := range nodeRe.FindAllStringSubmatch(g.Stdout, -1) {
		label[m[1]] = m[2]
	}
	got := map[string]bool{}
	for _, m := range edgeRe.FindAllStringSubmatch(g.Stdout, -1) {
		got[label[m[1]]+">"+label[m[2]]] = true
	}
	wantE := map[string]bool{}
	for _, e := range c.Edges {
		wantE[name(e[0])+">"+name(e[1])] = true
	}
	if len(got) != len(wantE) {
		return fmt.Errorf("`graph p` shows edges %v, declared %v", keys(got), keys(wantE))
	}
	for k := range wantE {
		if !got[k] {
			return fmt.Errorf("`graph p` shows edges %v, declared %v", keys(got), keys(wantE))
		}
	}
	return nil
}

func keys(m map[string]bool) []string {
	var o []string
	for k := range m {
		o = append(o, k)
	}
	sort.Strings(o)
	return o
}

func perms(n int) [][]int {
	if n == 0 {
		return [][]int{{}}
	}
	var out [][]int
	for _, p := range perms(n - 1) {
		for pos := 0; pos <= len(p); pos++ {
			q := append(append(append([]int{}, p[:pos]...), n-1), p[pos:]...)
			out = append(out, q)
		}
	}
	return out
}

func fromMask(n, mask int, order []int) Case {
	c := Case{N: n, Order: order}
	for i := 0; i < n; i++ {
		for j := 0; j < n; j++ {
			if mask&(1<<(i*n+j)) != 0 {
				c.Edges = append(c.Edges, [2]int{i, j})
			}
		}
	}
	return c
}

// TestExhaustive enumerates every edge set (self-loops included) on n <= VERIF_N stages in every
// declaration order, in size order, so the first failure is minimal.
func TestExhaustive(t *testing.T) {
	maxN := drv.N(3)
	idx, nsh := drv.Shard()
	for n := 1; n <= maxN; n++ {
		ps := perms(n)
		for mask := 0; mask < 1<<(n*n); mask++ {
			if mask%nsh != idx {
				continue
			}
			for _, order := range ps {
				c := fromMask(n, mask, order)
				if mask%4099 == 0 {
					drv.Sample(c)
				}
				if err := runAPI(c); err != nil {
					drv.Fail(t, "exhaustive", "", c, "%v; case %s", err, c.canon())
				}
			}
		}
	}
	drv.SetExhaustive()
}

func genCase(rt *rapid.T, maxN int) Case {
	n := rapid.IntRange(2, maxN).Draw(rt, "n")
	c := Case{N: n}
	// density and whether back edges are allowed are drawn per case so that both verdicts are common
	density := rapid.IntRange(1, 6).Draw(rt, "density") // edge probability density/12
	back := rapid.IntRange(0, 2).Draw(rt, "back")       // 0: forward edges only (acyclic by construction)
	hidden := rapid.Permutation(seq(n)).Draw(rt, "hidden")
	for a := 0; a < n; a++ {
		for b := 0; b < n; b++ {
			forward := a < b
			if !forward && back == 0 {
				continue
			}
			p := density
			if !forward && back == 1 {
				p = 1 // rare back edges: few cycles, long ones
			}
			if a == b && p > 1 {
				p = 1
			}
			if rapid.IntRange(0, 11).Draw(rt, "e") < p {
				c.Edges = append(c.Edges, [2]int{hidden[a], hidden[b]})
			}
		}
	}
	sort.Slice(c.Edges, func(i, j int) bool {
		if c.Edges[i][0] != c.Edges[j][0] {
			return c.Edges[i][0] < c.Edges[j][0]
		}
		return c.Edges[i][1] < c.Edges[j][1]
	})
	c.Order = rapid.Permutation(seq(n)).Draw(rt, "order")
	// stage names: plain, or built from few tokens and one separator, so that different pairs of names
	// concatenate to the same text ("build" + "linux:test" vs "build:linux" + "test")
	if rapid.IntRange(0, 2).Draw(rt, "composite-names") == 0 {
		sep := rapid.SampledFrom([]string{":", "/", "-", ".", " ", ",", "->", "|", "=", "_"}).Draw(rt, "separator")
		seen := map[string]bool{}
		for len(c.Names) < n {
			k := rapid.IntRange(1, 3).Draw(rt, "name-parts")
			var parts []string
			for i := 0; i < k; i++ {
				parts = append(parts, rapid.SampledFrom([]string{"a", "b", "c"}).Draw(rt, "name-part"))
			}
			nm := strings.Join(parts, sep)
			if seen[nm] {
				nm = fmt.Sprintf("%s%s%d", nm, sep, len(c.Names))
			}
			seen[nm] = true
			c.Names = append(c.Names, nm)
		}
	}
	// a depends_on list may name a stage more than once: that is the same as naming it once
	if len(c.Edges) > 0 && rapid.IntRange(0, 3).Draw(rt, "repeat-an-entry") == 0 {
		for k := rapid.IntRange(1, 2).Draw(rt, "repeats"); k > 0; k-- {
			e := c.Edges[rapid.IntRange(0, len(c.Edges)-1).Draw(rt, "which-entry")]
			at := rapid.IntRange(0, len(c.Edges)).Draw(rt, "repeat-at")
			c.Edges = append(c.Edges[:at], append([][2]int{e}, c.Edges[at:]...)...)
		}
	}
	if rapid.Bool().Draw(rt, "shuffle-depends_on-entries") && len(c.Edges) > 1 {
		c.Edges = rapid.Permutation(c.Edges).Draw(rt, "edge-order")
	}
	return c
}

func seq(n int) []int {
	s := make([]int, n)
	for i := range s {
		s[i] = i
	}
	return s
}

// genLarge draws graphs beyond the sizes the other parts reach: 11..20 stages, up to complete forward density,
// no or rare back edges, declared dependencies-first, dependants-first or shuffled.
func genLarge(rt *rapid.T) Case {
	n := rapid.IntRange(11, 20).Draw(rt, "n")
	c := Case{N: n}
	density := rapid.IntRange(4, 12).Draw(rt, "density") // forward edge probability density/12
	back := rapid.IntRange(0, 3).Draw(rt, "back") == 0
	hidden := rapid.Permutation(seq(n)).Draw(rt, "hidden")
	for a := 0; a < n; a++ {
		for b := a + 1; b < n; b++ {
			if density == 12 || rapid.IntRange(0, 11).Draw(rt, "e") < density {
				c.Edges = append(c.Edges, [2]int{hidden[a], hidden[b]})
			}
		}
	}
	if back {
		a, b := rapid.IntRange(1, n-1).Draw(rt, "back-from"), 0
		b = rapid.IntRange(0, a-1).Draw(rt, "back-to")
		c.Edges = append(c.Edges, [2]int{hidden[a], hidden[b]})
	}
	switch rapid.IntRange(0, 2).Draw(rt, "declaration") {
	case 0: // dependencies first
		c.Order = append([]int{}, hidden...)
	case 1: // dependants first
		for i := n - 1; i >= 0; i-- {
			c.Order = append(c.Order, hidden[i])
		}
	default:
		c.Order = rapid.Permutation(seq(n)).Draw(rt, "order")
	}
	return c
}

// TestLarge: acceptance and the exposed edges must not depend on size, density or declaration order.
func TestLarge(t *testing.T) {
	rapid.Check(t, func(rt *rapid.T) {
		c := genLarge(rt)
		drv.Sample(c)
		if err := runAPI(c); err != nil {
			drv.Fail(rt, "large", "", c, "%v; case %s", err, c.canon())
		}
	})
}

func TestRandom(t *testing.T) {
	rapid.Check(t, func(rt *rapid.T) {
		c := genCase(rt, 10)
		drv.Sample(c)
		if err := runAPI(c); err != nil {
			drv.Fail(rt, "random", "", c, "%v; case %s", err, c.canon())
		}
	})
}

func TestCLI(t *testing.T) {
	if drv.Bin() == "" {
		t.Skip("no binary")
	}
	root := t.TempDir()
	k := 0
	rapid.Check(t, func(rt *rapid.T) {
		c := genCase(rt, 7)
		c.CLI = true
		drv.Sample(c)
		k++
		dir := filepath.Join(root, fmt.Sprint("c", k))
		defer os.RemoveAll(dir)
		if err := runCLI(c, dir); err != nil {
			drv.Fail(rt, "cli", "", c, "%v; case %s", err, c.canon())
		}
	})
}

func TestReplay(t *testing.T) {
	_, raw, ok := drv.ReplayFile()
	if !ok {
		t.Skip("no replay requested")
	}
	var c Case
	if err := json.Unmarshal(raw, &c); err != nil {
		t.Fatal(err)
	}
	var err error
	if c.CLI {
		err = runCLI(c, t.TempDir())
	} else {
		err = runAPI(c)
	}
	if err != nil {
		drv.Fail(t, "replay", "", c, "%v; case %s", err, c.canon())
	}
}
