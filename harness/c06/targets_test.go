package c06

import (
	"encoding/json"
	"fmt"
	"os"
	"path/filepath"
	"sort"
	"strings"
	"testing"

	"pgregory.net/rapid"

	"verif/harness/cli"
	"verif/harness/drv"
	"verif/harness/gen"
)

// Target is one CLI target: a task or a two-stage pipeline whose last task ends with Status.
type Target struct {
	Pipeline bool `json:"pipeline"`
	Status   int  `json:"status"`
	Allow    bool `json:"allow,omitempty"` // task-level allow_failure: the target succeeds anyway
	Side     bool `json:"side,omitempty"`  // pipeline only: an independent stage that succeeds and finishes last
	// NestedAllowed (pipeline only): a further stage runs a nested pipeline that fails and has allow_failure: that does
	// not make the target fail
	NestedAllowed bool `json:"nested_allowed,omitempty"`
}

// TargetsCase is an argv of 1..4 targets in order.
type TargetsCase struct {
	Targets []Target `json:"targets"`
	ViaRun  bool     `json:"via_run"`            // `taskctl run a b` instead of `taskctl a b`
	RunTask bool     `json:"run_task,omitempty"` // `taskctl run task a b` (tasks only)
	// Decoy (with RunTask): for every task there is also a pipeline of the same name that does something else and
	// ends the other way round; `run task NAME` means the task
	Decoy bool `json:"decoy,omitempty"`
}

func runTargets(c TargetsCase, dir string) (vs []Violation) {
	os.MkdirAll(filepath.Join(dir, "home"), 0o755)
	trace := filepath.Join(dir, "trace")
	tasks, pipes := gen.Map{}, gen.Map{}
	var argv []string
	for i, tg := range c.Targets {
		tn := fmt.Sprintf("t%d", i)
		tk := gen.Map{{K: "command", V: gen.List{
			fmt.Sprintf("printf 'RUN:%d\\n' >> %s; exit %d", i, trace, tg.Status),
			fmt.Sprintf("printf 'SECOND:%d\\n' >> %s", i, trace)}}}
		if tg.Allow {
			tk = tk.Set("allow_failure", true)
		}
		tasks = tasks.Set(tn, tk)
		if c.Decoy && c.RunTask && !tg.Pipeline {
			st := 0
			if tg.Status == 0 || tg.Allow {
				st = 7
			}
			dn := fmt.Sprintf("decoy%d", i)
			tasks = tasks.Set(dn, gen.Map{{K: "command", V: gen.List{fmt.Sprintf("printf 'DECOY:%d\\n' >> %s; exit %d", i, trace, st)}}})
			pipes = pipes.Set(tn, gen.List{gen.Map{{K: "name", V: "only"}, {K: "task", V: dn}}})
		}
		if tg.Pipeline {
			pre := fmt.Sprintf("pre%d", i)
			tasks = tasks.Set(pre, gen.Map{{K: "command", V: gen.List{fmt.Sprintf("printf 'PRE:%d\\n' >> %s", i, trace)}}})
			pn := fmt.Sprintf("p%d", i)
			stages := gen.List{
				gen.Map{{K: "name", V: fmt.Sprintf("a%d", i)}, {K: "task", V: pre}},
				gen.Map{{K: "name", V: fmt.Sprintf("b%d", i)}, {K: "task", V: tn}, {K: "depends_on", V: gen.List{fmt.Sprintf("a%d", i)}}},
			}
			if tg.Side {
				side := fmt.Sprintf("side%d", i)
				tasks = tasks.Set(side, gen.Map{{K: "command", V: gen.List{fmt.Sprintf("sleep 0.25; printf 'SIDE:%d\\n' >> %s", i, trace)}}})
				stages = append(stages, gen.Map{{K: "name", V: fmt.Sprintf("c%d", i)}, {K: "task", V: side}})
			}
			if tg.NestedAllowed {
				in := fmt.Sprintf("innerfail%d", i)
				tasks = tasks.Set(in, gen.Map{{K: "command", V: gen.List{"exit 7"}}})
				pipes = pipes.Set(fmt.Sprintf("inner%d", i), gen.List{gen.Map{{K: "name", V: "x"}, {K: "task", V: in}}})
				stages = append(stages, gen.Map{{K: "name", V: fmt.Sprintf("n%d", i)}, {K: "pipeline", V: fmt.Sprintf("inner%d", i)}, {K: "allow_failure", V: true}})
			}
			pipes = pipes.Set(pn, stages)
			argv = append(argv, pn)
		} else {
			argv = append(argv, tn)
		}
	}
	cfg := gen.Map{{K: "tasks", V: tasks}}
	if len(pipes) > 0 {
		cfg = cfg.Set("pipelines", pipes)
	}
	os.WriteFile(filepath.Join(dir, "t.yaml"), []byte(gen.YAML(cfg)), 0o644)
	env := cli.Env{Bin: drv.Bin(), Dir: dir, Home: filepath.Join(dir, "home")}
	args := []string{"-c", "t.yaml", "--raw"}
	if c.RunTask {
		args = append(args, "run", "task")
	} else if c.ViaRun {
		args = append(args, "run")
	}
	r := env.Run(append(args, argv...)...)
	fail := func(f string, a ...any) { vs = append(vs, Violation{"C07", fmt.Sprintf(f, a...)}) }
	if r.Crashed() {
		fail("binary crashed: exit %d timedOut=%v stderr %q", r.Exit, r.TimedOut, r.Stderr)
		return
	}
	// per target the expected tokens (the independent side stage may finish anywhere inside its target),
	// targets strictly one after the other, nothing after the first failing one
	var want []string
	allOK := true
	for i, tg := range c.Targets {
		var grp []string
		if tg.Pipeline {
			grp = append(grp, fmt.Sprintf("PRE:%d", i))
		}
		grp = append(grp, fmt.Sprintf("RUN:%d", i))
		failed := tg.Status != 0 && !tg.Allow
		if !failed {
			grp = append(grp, fmt.Sprintf("SECOND:%d", i))
		}
		if tg.Pipeline && tg.Side {
			grp = append(grp, fmt.Sprintf("SIDE:%d", i))
		}
		sort.Strings(grp)
		want = append(want, strings.Join(grp, ","))
		if failed {
			allOK = false
			break
		}
	}
	data, _ := os.ReadFile(trace)
	var got []string
	{
		var grp []string
		cur := ""
		flush := func() {
			if len(grp) > 0 {
				sort.Strings(grp)
				got = append(got, strings.Join(grp, ","))
				grp = nil
			}
		}
		for _, tk := range strings.Fields(string(data)) {
			idx := tk[strings.Index(tk, ":")+1:]
			if idx != cur {
				flush()
				cur = idx
			}
			grp = append(grp, tk)
		}
		flush()
	}
	if strings.Join(got, " | ") != strings.Join(want, " | ") {
		fail("targets %v: executed %v, want %v (command-line order, nothing after the first failing target)", argv, got, want)
	}
	if (r.Exit == 0) != allOK {
		fail("targets %v: exit status %d, all targets succeeded=%v; stderr %q", argv, r.Exit, allOK, r.Stderr)
	}
	return vs
}

func decideTargets(t drv.TB, c TargetsCase, dir string) {
	vs := runTargets(c, dir)
	b, _ := json.Marshal(c)
	firstFail := -1
	for i, tg := range c.Targets {
		if tg.Status != 0 && !tg.Allow && firstFail < 0 {
			firstFail = i
		}
	}
	cls := []string{fmt.Sprintf("targets=%d", len(c.Targets))}
	if firstFail >= 0 {
		cls = append(cls, fmt.Sprintf("first-failing-target=%d", firstFail))
	} else {
		cls = append(cls, "all-succeed")
	}
	drv.Eval(cls...)
	if len(c.Targets) >= 2 {
		drv.NonTrivial(string(b))
	}
	if len(vs) > 0 && (drv.Prop() == "C07" || drv.Prop() == "") {
		var m []string
		for _, v := range vs {
			m = append(m, v.Msg)
		}
		drv.Fail(t, "targets", "", c, "%s; case %s", strings.Join(m, "; "), b)
	}
}

// TestTargets: 1..4 CLI targets (tasks and pipelines), each succeeding or failing with a drawn status.
func TestTargets(t *testing.T) {
	root := t.TempDir()
	k := 0
	rapid.Check(t, func(rt *rapid.T) {
		n := rapid.IntRange(1, 4).Draw(rt, "n")
		c := TargetsCase{ViaRun: rapid.Bool().Draw(rt, "via_run")}
		onlyTasks := rapid.IntRange(0, 3).Draw(rt, "only-tasks") == 0
		for i := 0; i < n; i++ {
			tg := Target{Pipeline: !onlyTasks && rapid.Bool().Draw(rt, "pipeline")}
			tg.Side = tg.Pipeline && rapid.Bool().Draw(rt, "side")
			tg.NestedAllowed = tg.Pipeline && rapid.IntRange(0, 2).Draw(rt, "nested-allowed-failure") == 0
			if rapid.IntRange(0, 2).Draw(rt, "fails") == 0 {
				tg.Status = rapid.IntRange(1, 255).Draw(rt, "status")
				tg.Allow = rapid.IntRange(0, 3).Draw(rt, "allow") == 0
			}
			c.Targets = append(c.Targets, tg)
		}
		allTasks := true
		for _, tg := range c.Targets {
			if tg.Pipeline {
				allTasks = false
			}
		}
		if allTasks && rapid.IntRange(0, 2).Draw(rt, "run-task-subcommand") > 0 {
			c.RunTask = true
			c.Decoy = rapid.Bool().Draw(rt, "same-named-pipelines")
		}
		k++
		dir := filepath.Join(root, fmt.Sprint("c", k))
		defer os.RemoveAll(dir)
		drv.Sample(c)
		decideTargets(rt, c, dir)
	})
}

func replayTargets(t *testing.T, raw json.RawMessage) {
	var c TargetsCase
	if err := json.Unmarshal(raw, &c); err != nil {
		t.Fatal(err)
	}
	decideTargets(t, c, t.TempDir())
}
