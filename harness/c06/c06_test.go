// Package c06 decides C06 (commands run one at a time, in order, stop at the first failure) and
// C07 (reported status is faithful) with one task-run model.
package c06

import (
	"bytes"
	"encoding/json"
	"fmt"
	"io"
	"math/rand"
	"os"
	"path/filepath"
	"strings"
	"sync"
	"testing"

	"github.com/sirupsen/logrus"
	"github.com/taskctl/taskctl/pkg/runner"
	"github.com/taskctl/taskctl/pkg/scheduler"
	"github.com/taskctl/taskctl/pkg/task"
	"pgregory.net/rapid"

	"verif/harness/cli"
	"verif/harness/drv"
	"verif/harness/gen"
)

func TestMain(m *testing.M) {
	os.Unsetenv("V")
	os.Unsetenv("W")
	logrus.SetOutput(io.Discard)
	drv.Main(m)
}

// Cmd is one generated command: writes S:<id> to the trace file and to stdout, optionally sleeps,
// writes E:<id> and ends with Status through one of four exit shapes.
type Cmd struct {
	ID     string `json:"id"`
	Status int    `json:"status"`
	Shape  int    `json:"shape"`
	Sleep  bool   `json:"sleep,omitempty"`
	// Lead: what the command text starts with: 0 nothing, 1 a comment line, 2 an empty line, 3 blanks,
	// 4 a line that ends in a comment (the command is a small script; all of it runs)
	Lead int `json:"lead,omitempty"`
}

var leads = []string{"", "# note: a comment line first\n", "\n", "   ", "true # a trailing comment\n"}

// Case is one generated task and how it is run.
type Case struct {
	Before     []Cmd  `json:"before,omitempty"`
	Cmds       []Cmd  `json:"cmds"`
	After      []Cmd  `json:"after,omitempty"`
	NVar       int    `json:"nvar"`              // 0 = no variations key
	DupVar     bool   `json:"dup_var,omitempty"` // the list of variations ends with a copy of its first entry: it runs again
	Allow      bool   `json:"allow"`
	Cond       int    `json:"cond"` // 0 none 1 true 2 false
	CondStatus int    `json:"cond_status,omitempty"`
	Mode       string `json:"mode"` // "run" TaskRunner.Run, "stage" through the scheduler, "cli" through the binary
	// Rerun (in-process modes): every exit status, the condition's included, is read from a file when the command
	// runs, and the task is run a second time on the same runner with other statuses in the files - the command and
	// condition texts are the same both times, their outcome is not. The second run is judged like the first.
	Rerun *Rerun `json:"rerun,omitempty"`
}

// Rerun holds the statuses of the second run and whether it uses the same task object again.
type Rerun struct {
	Before     []int `json:"before,omitempty"`
	Cmds       []int `json:"cmds"`
	After      []int `json:"after,omitempty"`
	CondStatus int   `json:"cond_status"` // used when the task has a condition at all (Cond != 0)
	SameObject bool  `json:"same_object"`
}

// second is the case the second run is judged by.
func (c Case) second() Case {
	d := c
	d.Rerun = nil
	cp := func(cs []Cmd, st []int) []Cmd {
		out := append([]Cmd{}, cs...)
		for i := range out {
			out[i].Status = st[i]
		}
		return out
	}
	d.Before, d.Cmds, d.After = cp(c.Before, c.Rerun.Before), cp(c.Cmds, c.Rerun.Cmds), cp(c.After, c.Rerun.After)
	if c.Cond != 0 {
		d.Cond, d.CondStatus = 1, 0
		if c.Rerun.CondStatus != 0 {
			d.Cond, d.CondStatus = 2, c.Rerun.CondStatus
		}
	}
	return d
}

// writeStatuses puts the statuses of c where the commands of a rerun case read them.
func writeStatuses(c Case, dir string) {
	for _, l := range [][]Cmd{c.Before, c.Cmds, c.After} {
		for _, cm := range l {
			os.WriteFile(filepath.Join(dir, "st."+cm.ID), []byte(fmt.Sprint(cm.Status)), 0o644)
		}
	}
	st := 0
	if c.Cond == 2 {
		st = c.CondStatus
	}
	os.WriteFile(filepath.Join(dir, "st.cond"), []byte(fmt.Sprint(st)), 0o644)
}

// varIdx lists the variations of the case by the index their values are derived from.
func (c Case) varIdx() []int {
	var l []int
	for i := 0; i < c.NVar; i++ {
		l = append(l, i)
	}
	if c.DupVar && c.NVar >= 1 {
		l = append(l, 0)
	}
	return l
}

func exitShape(shape, n int) string {
	switch shape % 4 {
	case 0:
		return fmt.Sprintf("exit %d", n)
	case 1:
		return fmt.Sprintf("(exit %d)", n)
	case 2:
		return fmt.Sprintf("sh -c 'exit %d'", n)
	default:
		return fmt.Sprintf("true | (exit %d)", n)
	}
}

func (c Cmd) text(trace string, withVar bool) string {
	return c.textFrom(trace, withVar, "")
}

// textFrom: with stDir set the exit status is read from the file st.<id> there when the command runs.
func (c Cmd) textFrom(trace string, withVar bool, stDir string) string {
	id := c.ID
	if withVar {
		// V is set by every variation, W only by the even ones: a later variation must not inherit it
		id = c.ID + "@$V/${W:-none}"
	}
	sl := ""
	if c.Sleep {
		sl = "sleep 0.01; "
	}
	ex := exitShape(c.Shape, c.Status)
	if stDir != "" {
		ex = fmt.Sprintf("exit $(cat %s)", filepath.Join(stDir, "st."+c.ID))
	}
	return leads[c.Lead%len(leads)] + fmt.Sprintf("printf 'S:%%s\\n' \"%s\" >> %s; printf 'S:%%s\\n' \"%s\"; %sprintf 'E:%%s\\n' \"%s\" >> %s; %s",
		id, trace, id, sl, id, trace, ex)
}

type expect struct {
	trace        []string // required tokens in order
	optional     []string // may follow: after-hooks behind a failing after-hook
	stdout       []string // S tokens of the commands (hooks write to the runner's stdout as well)
	skipped      bool
	failed       bool // Run returns an error
	errored      bool // a command failed without allow_failure
	exit         int
	exitKnown    bool
	beforeFailed bool
}

// model is the task-run reference: before* -> per variation each command -> after*.
func model(c Case) expect {
	var e expect
	tok := func(id string) []string { return []string{"S:" + id, "E:" + id} }
	if c.Cond == 2 {
		e.skipped = true
		return e
	}
	for _, b := range c.Before {
		e.trace = append(e.trace, tok(b.ID)...)
		e.stdout = append(e.stdout, "S:"+b.ID)
		if b.Status != 0 {
			e.failed, e.beforeFailed = true, true
			return e
		}
	}
	vars := []string{""}
	if c.NVar > 0 {
		vars = nil
		for _, i := range c.varIdx() {
			w := "none"
			if i%2 == 0 {
				w = fmt.Sprintf("w%d", i)
			}
			vars = append(vars, fmt.Sprintf("v%d/%s", i, w))
		}
	}
	for _, v := range vars {
		for _, cm := range c.Cmds {
			id := cm.ID
			if c.NVar > 0 {
				id = cm.ID + "@" + v
			}
			e.trace = append(e.trace, tok(id)...)
			e.stdout = append(e.stdout, "S:"+id)
			if cm.Status != 0 && !c.Allow {
				e.failed, e.errored, e.exit, e.exitKnown = true, true, cm.Status, true
				return e
			}
		}
	}
	e.exitKnown, e.exit = true, 0
	stopped := false
	for _, a := range c.After {
		if stopped {
			e.optional = append(e.optional, tok(a.ID)...)
			continue
		}
		e.trace = append(e.trace, tok(a.ID)...)
		e.stdout = append(e.stdout, "S:"+a.ID)
		if a.Status != 0 {
			stopped = true
		}
	}
	return e
}

func mkTask(c Case, trace string) *task.Task {
	tk := task.NewTask()
	tk.Name = "t"
	stDir := ""
	if c.Rerun != nil {
		stDir = filepath.Dir(trace)
	}
	for _, b := range c.Before {
		tk.Before = append(tk.Before, b.textFrom(trace, false, stDir))
	}
	for _, cm := range c.Cmds {
		tk.Commands = append(tk.Commands, cm.textFrom(trace, c.NVar > 0, stDir))
	}
	for _, a := range c.After {
		tk.After = append(tk.After, a.textFrom(trace, false, stDir))
	}
	for _, i := range c.varIdx() {
		v := map[string]string{"V": fmt.Sprintf("v%d", i)}
		if i%2 == 0 {
			v["W"] = fmt.Sprintf("w%d", i)
		}
		tk.Variations = append(tk.Variations, v)
	}
	tk.AllowFailure = c.Allow
	switch c.Cond {
	case 1:
		tk.Condition = "true"
	case 2:
		tk.Condition = fmt.Sprintf("exit %d", c.CondStatus)
	}
	if c.Rerun != nil && c.Cond != 0 {
		tk.Condition = fmt.Sprintf("exit $(cat %s)", filepath.Join(stDir, "st.cond"))
	}
	return tk
}

type syncBuf struct {
	mu sync.Mutex
	b  bytes.Buffer
}

func (s *syncBuf) Write(p []byte) (int, error) { s.mu.Lock(); defer s.mu.Unlock(); return s.b.Write(p) }
func (s *syncBuf) String() string              { s.mu.Lock(); defer s.mu.Unlock(); return s.b.String() }

// Violation carries the ids of the properties it contradicts.
type Violation struct{ Props, Msg string }

func (v Violation) hits(id string) bool { return strings.Contains(" "+v.Props+" ", " "+id+" ") }

var caseSeq int

// runInProcess executes the case through TaskRunner.Run (or a one-stage pipeline) and applies both oracles.
func runInProcess(c Case, dir string) (vs []Violation) {
	caseSeq++
	trace := filepath.Join(dir, fmt.Sprintf("trace%d", caseSeq))
	defer os.Remove(trace)
	tk := mkTask(c, trace)
	r, err := runner.NewTaskRunner()
	if err != nil {
		return []Violation{{"C06 C07", "NewTaskRunner: " + err.Error()}}
	}
	if c.Rerun == nil {
		return runOnce(c, tk, r, trace, false)
	}
	writeStatuses(c, dir)
	first := c
	first.Rerun = nil
	vs = runOnce(first, tk, r, trace, false)
	for i := range vs {
		vs[i].Msg = "first run: " + vs[i].Msg
	}
	os.Remove(trace)
	sec := c.second()
	writeStatuses(sec, dir)
	if !c.Rerun.SameObject {
		tk = mkTask(c, trace) // same texts, new object
	}
	for _, v := range runOnce(sec, tk, r, trace, c.Rerun.SameObject) {
		vs = append(vs, Violation{v.Props, fmt.Sprintf("second run on the same runner (same task object: %v), judged as %s: %s", c.Rerun.SameObject, canon(sec), v.Msg)})
	}
	return vs
}

// runOnce runs tk once on r and judges the run by c. With reused set tk has been run before: what the run returns,
// what it executes and the fields it has reason to set are judged; a flag or status left over from the earlier run
// is not (the statements do not say what a task object records when it is run again).
func runOnce(c Case, tk *task.Task, r *runner.TaskRunner, trace string, reused bool) (vs []Violation) {
	before := tk.ExitCode
	out := &syncBuf{}
	r.Stdout, r.Stderr = out, io.Discard
	var rerr error
	if c.Mode == "stage" {
		g, gerr := scheduler.NewExecutionGraph(&scheduler.Stage{Name: "st", Task: tk})
		if gerr != nil {
			return []Violation{{"C06 C07", gerr.Error()}}
		}
		s := scheduler.NewScheduler(r)
		rerr = s.Schedule(g)
		st, _ := g.Node("st")
		e := model(c)
		want := int32(scheduler.StatusDone)
		if e.failed {
			want = scheduler.StatusError
		}
		if got := st.ReadStatus(); got != want {
			vs = append(vs, Violation{"C07", fmt.Sprintf("stage status %d, want %d (task failed=%v)", got, want, e.failed)})
		}
	} else {
		rerr = r.Run(tk)
	}
	data, _ := os.ReadFile(trace)
	got := strings.Fields(string(data))
	e := model(c)
	fail := func(props, f string, a ...any) { vs = append(vs, Violation{props, fmt.Sprintf(f, a...)}) }

	// C06: trace
	okTrace := len(got) >= len(e.trace) && len(got) <= len(e.trace)+len(e.optional)
	if okTrace {
		for i, w := range e.trace {
			if got[i] != w {
				okTrace = false
			}
		}
	}
	if okTrace {
		for i, g := range got[len(e.trace):] {
			if g != e.optional[i] {
				okTrace = false
			}
		}
	}
	if !okTrace {
		fail("C06", "trace file: got %v want %v (optional tail %v)", got, e.trace, e.optional)
	}
	// C06: stdout order (S tokens; the optional after-hook tail is tolerated)
	var so []string
	for _, l := range strings.Fields(out.String()) {
		if strings.HasPrefix(l, "S:") {
			so = append(so, l)
		}
	}
	if len(so) < len(e.stdout) || strings.Join(so[:len(e.stdout)], " ") != strings.Join(e.stdout, " ") || len(so) > len(e.stdout)+len(e.optional)/2 {
		fail("C06", "stdout tokens: got %v want %v", so, e.stdout)
	}
	if tk.Skipped != e.skipped && (!reused || e.skipped) {
		fail("C06 C07", "Skipped=%v, want %v", tk.Skipped, e.skipped)
	}
	// C07: status
	if (rerr != nil) != e.failed {
		fail("C07", "returned error %v, task failed=%v", rerr, e.failed)
	}
	if !e.beforeFailed && reused {
		if e.errored && (!tk.Errored || tk.Error == nil || int(tk.ExitCode) != e.exit) {
			fail("C07", "a command failed with status %d: Errored=%v Error=%v ExitCode=%d", e.exit, tk.Errored, tk.Error, tk.ExitCode)
		}
	} else if !e.beforeFailed { // Errored/ExitCode after a failing before-hook are not asserted
		if tk.Errored != e.errored {
			fail("C07", "Errored=%v, want %v", tk.Errored, e.errored)
		}
		if e.errored && tk.Error == nil {
			fail("C07", "a command failed but Task.Error is nil")
		}
		if !e.errored && !e.skipped && tk.Error != nil {
			fail("C07", "Task.Error=%v although no command failed", tk.Error)
		}
		if e.exitKnown && int(tk.ExitCode) != e.exit {
			fail("C07", "ExitCode=%d, want %d", tk.ExitCode, e.exit)
		}
	}
	if e.skipped && tk.ExitCode != before && !reused {
		fail("C07", "a skipped task records an exit status: %d -> %d", before, tk.ExitCode)
	}
	return vs
}

func cmdList(cs []Cmd, trace string, withVar bool) gen.List {
	var l gen.List
	for _, c := range cs {
		l = append(l, c.text(trace, withVar))
	}
	return l
}

// runCLI writes the task as YAML and runs it through the binary.
func runCLI(c Case, dir string) (vs []Violation) {
	os.MkdirAll(filepath.Join(dir, "home"), 0o755)
	trace := filepath.Join(dir, "trace")
	tk := gen.Map{{K: "command", V: cmdList(c.Cmds, trace, c.NVar > 0)}}
	if len(c.Before) > 0 {
		tk = tk.Set("before", cmdList(c.Before, trace, false))
	}
	if len(c.After) > 0 {
		tk = tk.Set("after", cmdList(c.After, trace, false))
	}
	if c.NVar > 0 {
		var l gen.List
		for _, i := range c.varIdx() {
			v := gen.Map{{K: "V", V: fmt.Sprintf("v%d", i)}}
			if i%2 == 0 {
				v = v.Set("W", fmt.Sprintf("w%d", i))
			}
			l = append(l, v)
		}
		tk = tk.Set("variations", l)
	}
	if c.Allow {
		tk = tk.Set("allow_failure", true)
	}
	switch c.Cond {
	case 1:
		tk = tk.Set("condition", "true")
	case 2:
		tk = tk.Set("condition", fmt.Sprintf("exit %d", c.CondStatus))
	}
	cfg := gen.Map{{K: "tasks", V: gen.Map{{K: "t", V: tk}}}}
	os.WriteFile(filepath.Join(dir, "t.yaml"), []byte(gen.YAML(cfg)), 0o644)
	env := cli.Env{Bin: drv.Bin(), Dir: dir, Home: filepath.Join(dir, "home")}
	r := env.Run("-c", "t.yaml", "--raw", "t")
	e := model(c)
	fail := func(props, f string, a ...any) { vs = append(vs, Violation{props, fmt.Sprintf(f, a...)}) }
	if r.Crashed() {
		fail("C06 C07", "binary crashed: exit %d timedOut=%v stderr %q", r.Exit, r.TimedOut, r.Stderr)
		return
	}
	data, _ := os.ReadFile(trace)
	got := strings.Fields(string(data))
	ok := len(got) >= len(e.trace) && len(got) <= len(e.trace)+len(e.optional)
	if ok {
		for i, w := range e.trace {
			if got[i] != w {
				ok = false
			}
		}
	}
	if !ok {
		fail("C06", "trace file (binary): got %v want %v (+%v)", got, e.trace, e.optional)
	}
	if (r.Exit != 0) != e.failed {
		fail("C07", "process exit status %d, task failed=%v; stderr %q", r.Exit, e.failed, r.Stderr)
	}
	return vs
}

func canon(c Case) string { b, _ := json.Marshal(c); return string(b) }

func record(c Case) {
	e := model(c)
	cls := []string{"mode=" + c.Mode, fmt.Sprintf("cmds=%d", len(c.Cmds)), fmt.Sprintf("variations=%d", c.NVar)}
	failingPos, maxStatus := -1, 0
	for i, cm := range c.Cmds {
		if cm.Status != 0 && failingPos < 0 {
			failingPos = i
		}
		if cm.Status > maxStatus {
			maxStatus = cm.Status
		}
	}
	if e.skipped {
		cls = append(cls, "skipped")
	}
	if e.errored {
		cls = append(cls, "command-failure")
	}
	if e.beforeFailed {
		cls = append(cls, "before-failure")
	}
	if c.Allow && failingPos >= 0 {
		cls = append(cls, "allowed-failure")
	}
	if c.Rerun != nil {
		cls = append(cls, "run-twice-on-one-runner")
		if e2 := model(c.second()); e2.failed != e.failed || e2.skipped != e.skipped {
			cls = append(cls, "second-run-ends-differently")
		}
	}
	drv.Eval(cls...)
	hook := len(c.Before)+len(c.After) > 0
	if drv.Prop() == "C07" {
		if maxStatus > 1 || failingPos > 0 || c.Mode != "run" {
			drv.NonTrivial(canon(c))
		}
		return
	}
	if len(c.Cmds) >= 2 && (failingPos >= 0 || c.NVar >= 2 || hook) {
		drv.NonTrivial(canon(c))
	}
}

func decide(t drv.TB, part string, c Case, dir string) {
	var vs []Violation
	if c.Mode == "cli" {
		vs = runCLI(c, dir)
	} else {
		vs = runInProcess(c, dir)
	}
	record(c)
	me := drv.Prop()
	if me == "" {
		me = "C06"
	}
	var mine []string
	for _, v := range vs {
		if v.hits(me) {
			mine = append(mine, v.Msg)
		} else {
			drv.Class("sibling-violation")
			drv.Note("sibling oracle (%s) disagreed: %s", v.Props, v.Msg)
		}
	}
	if len(mine) > 0 {
		drv.Fail(t, part, "", c, "%s; case %s", strings.Join(mine, "; "), canon(c))
	}
}

func genCmds(rt *rapid.T, label string, min, max int) []Cmd {
	n := rapid.IntRange(min, max).Draw(rt, label+"_n")
	out := make([]Cmd, n)
	for i := range out {
		st := 0
		if rapid.IntRange(0, 2).Draw(rt, label+"_fail") == 0 {
			st = rapid.IntRange(1, 255).Draw(rt, label+"_status")
		}
		out[i] = Cmd{ID: fmt.Sprintf("%s%d", label, i), Status: st, Shape: rapid.IntRange(0, 3).Draw(rt, label+"_shape"),
			Sleep: rapid.IntRange(0, 3).Draw(rt, label+"_sleep") == 0}
		if rapid.IntRange(0, 3).Draw(rt, label+"_lead") == 0 {
			out[i].Lead = rapid.IntRange(1, 4).Draw(rt, label+"_leadkind")
		}
	}
	return out
}

func genCase(rt *rapid.T, maxCmds int) Case {
	c := Case{
		Before: genCmds(rt, "b", 0, 2),
		Cmds:   genCmds(rt, "c", 1, maxCmds),
		After:  genCmds(rt, "a", 0, 2),
		NVar:   rapid.IntRange(0, 3).Draw(rt, "nvar"),
		DupVar: rapid.IntRange(0, 3).Draw(rt, "repeat-first-variation") == 0,
		Allow:  rapid.Bool().Draw(rt, "allow"),
		Cond:   rapid.SampledFrom([]int{0, 0, 1, 2}).Draw(rt, "cond"),
	}
	c.CondStatus = rapid.IntRange(1, 255).Draw(rt, "condst")
	return c
}

// genRerun draws the statuses of a second run.
func genRerun(rt *rapid.T, c Case) *Rerun {
	sts := func(label string, n int) []int {
		out := make([]int, n)
		for i := range out {
			if rapid.IntRange(0, 2).Draw(rt, label+"_fail2") == 0 {
				out[i] = rapid.IntRange(1, 255).Draw(rt, label+"_status2")
			}
		}
		return out
	}
	r := &Rerun{Before: sts("b", len(c.Before)), Cmds: sts("c", len(c.Cmds)), After: sts("a", len(c.After)), SameObject: rapid.Bool().Draw(rt, "same-object")}
	if rapid.Bool().Draw(rt, "cond2-false") {
		r.CondStatus = rapid.IntRange(1, 255).Draw(rt, "condst2")
	}
	return r
}

// TestRandom: random larger tasks (up to 6 commands, 2 hooks each side, all exit shapes, statuses 1..255).
func TestRandom(t *testing.T) {
	dir := t.TempDir()
	rapid.Check(t, func(rt *rapid.T) {
		c := genCase(rt, 6)
		c.Mode = rapid.SampledFrom([]string{"run", "run", "stage"}).Draw(rt, "mode")
		if rapid.IntRange(0, 2).Draw(rt, "rerun") == 0 {
			c.Rerun = genRerun(rt, c)
		}
		drv.Sample(c)
		decide(rt, "random", c, dir)
	})
}

// TestCLI: the same generator through the binary.
func TestCLI(t *testing.T) {
	root := t.TempDir()
	k := 0
	rapid.Check(t, func(rt *rapid.T) {
		c := genCase(rt, 4)
		c.Mode = "cli"
		k++
		dir := filepath.Join(root, fmt.Sprint("c", k))
		defer os.RemoveAll(dir)
		drv.Sample(c)
		decide(rt, "cli", c, dir)
	})
}

// TestGrammar enumerates the quantifier's grammar completely: 1..3 commands x every failing subset x
// 0..3 variations x allow_failure x before/after in {absent, ok, failing} x condition in {absent,
// true, false}; the status of a failing command is drawn from a PRNG seeded by VERIF_SEED.
func TestGrammar(t *testing.T) {
	dir := t.TempDir()
	idx, nsh := drv.Shard()
	rng := rand.New(rand.NewSource(drv.Seed()))
	k := 0
	hook := func(label string, mode int, st int) []Cmd {
		switch mode {
		case 1:
			return []Cmd{{ID: label + "0"}}
		case 2:
			return []Cmd{{ID: label + "0", Status: st}}
		}
		return nil
	}
	for n := 1; n <= 3; n++ {
		for failing := 0; failing < 1<<n; failing++ {
			for nvar := 0; nvar <= 3; nvar++ {
				for allow := 0; allow < 2; allow++ {
					for bm := 0; bm < 3; bm++ {
						for am := 0; am < 3; am++ {
							for cond := 0; cond < 3; cond++ {
								st := 1 + rng.Intn(255)
								k++
								if k%nsh != idx {
									continue
								}
								c := Case{NVar: nvar, Allow: allow == 1, Cond: cond, CondStatus: st, Mode: "run",
									Before: hook("b", bm, st), After: hook("a", am, st)}
								for i := 0; i < n; i++ {
									cm := Cmd{ID: fmt.Sprintf("c%d", i)}
									if failing&(1<<i) != 0 {
										cm.Status = st
									}
									c.Cmds = append(c.Cmds, cm)
								}
								if k%211 == 0 {
									drv.Sample(c)
								}
								decide(t, "grammar", c, dir)
							}
						}
					}
				}
			}
		}
	}
	drv.SetExhaustive()
}

// TestStatuses sweeps every exit status 0..255 at every command position of tasks with 1..3
// commands, with and without allow_failure, directly and as a pipeline stage.
func TestStatuses(t *testing.T) {
	dir := t.TempDir()
	idx, nsh := drv.Shard()
	k := 0
	for n := 1; n <= 3; n++ {
		for pos := 0; pos < n; pos++ {
			for st := 0; st < 256; st++ {
				for allow := 0; allow < 2; allow++ {
					k++
					if k%nsh != idx {
						continue
					}
					c := Case{Allow: allow == 1, Mode: []string{"run", "stage"}[k/nsh%2]}
					for i := 0; i < n; i++ {
						cm := Cmd{ID: fmt.Sprintf("c%d", i), Shape: (k / nsh / 2) % 4}
						if i == pos {
							cm.Status = st
						}
						c.Cmds = append(c.Cmds, cm)
					}
					if k%301 == 0 {
						drv.Sample(c)
					}
					decide(t, "statuses", c, dir)
				}
			}
		}
	}
	drv.SetExhaustive()
}

func TestReplay(t *testing.T) {
	part, raw, ok := drv.ReplayFile()
	if !ok {
		t.Skip("no replay requested")
	}
	if part == "targets" {
		replayTargets(t, raw)
		return
	}
	var c Case
	if err := json.Unmarshal(raw, &c); err != nil {
		t.Fatal(err)
	}
	decide(t, "replay", c, t.TempDir())
}
