// Package c12 decides C12 (cancellation is safe and prompt at any moment) and the real-runner
// part of C03 (a cancelled run still returns). Every case runs in a fresh child process, because
// the failure modes are a crash or a wedged process.
package c12

import (
	"bytes"
	"context"
	"encoding/json"
	"fmt"
	"io"
	"os"
	"os/exec"
	"path/filepath"
	"strconv"
	"strings"
	"sync"
	"syscall"
	"testing"
	"time"

	"github.com/sirupsen/logrus"
	"github.com/taskctl/taskctl/pkg/runner"
	"github.com/taskctl/taskctl/pkg/scheduler"
	"github.com/taskctl/taskctl/pkg/task"
	"github.com/taskctl/taskctl/pkg/variables"
	"pgregory.net/rapid"

	"verif/harness/drv"
)

func TestMain(m *testing.M) {
	logrus.SetOutput(io.Discard)
	if os.Getenv("VERIF_CHILD_CASE") != "" {
		childMain()
		return
	}
	drv.Main(m)
}

// Case is one cancellation scenario.
type Case struct {
	K        int    `json:"in_flight"` // tasks in flight when the cancel arrives (0..4)
	W        int    `json:"waiting"`   // stages still waiting (scheduler only, needs K >= 1)
	Phase    string `json:"phase"`     // before-run | before-hook | command | second-command | burst | after-finish
	Double   string `json:"double"`    // once | twice-seq | twice-conc
	Via      string `json:"via"`       // runner | scheduler | condition (unevaluable stage condition cancels the run)
	BurstM   int    `json:"burst_marker,omitempty"`
	CondAt   int    `json:"cond_at,omitempty"`       // which stage carries the bad condition (condition only)
	DelayMs  int    `json:"delay_ms,omitempty"`      // extra wait before the cancel
	Nested   bool   `json:"nested,omitempty"`        // via condition: the stage with the bad condition sits in a pipeline that is itself a stage
	Stubborn bool   `json:"stubborn,omitempty"`      // the long command ignores SIGINT: it dies only after the interpreter's 2 s kill grace
	Allow    bool   `json:"allow_failure,omitempty"` // the tasks allow failure: an interruption is still not a success
	Tmo      bool   `json:"timeout,omitempty"`       // the tasks carry a (generous) timeout of their own
	Ctx      bool   `json:"ctx,omitempty"`           // the tasks run in an execution context that has before/after commands of its own
}

func (c Case) canon() string { b, _ := json.Marshal(c); return string(b) }

func readLines(p string) []string {
	b, _ := os.ReadFile(p)
	return strings.Fields(string(b))
}

func waitFor(cond func() bool, d time.Duration) bool {
	dl := time.Now().Add(d)
	for time.Now().Before(dl) {
		if cond() {
			return true
		}
		time.Sleep(2 * time.Millisecond)
	}
	return cond()
}

const burstN = 150

// scenario runs inside the child; it returns a violation message or "".
func scenario(c Case, dir string, scale int) string {
	bound := time.Duration(scale) * 4 * time.Second
	log := filepath.Join(dir, "log")
	pids := filepath.Join(dir, "pids")
	mk := func(i int) *task.Task {
		long := fmt.Sprintf("printf 'S:%d\\n' >> %s; sh -c 'echo $$ >> %s; exec sleep 30'; printf 'E:%d\\n' >> %s", i, log, pids, i, log)
		if c.Stubborn {
			long = fmt.Sprintf("printf 'S:%d\\n' >> %s; sh -c 'trap \"\" INT; echo $$ >> %s; exec sleep 30'; printf 'E:%d\\n' >> %s", i, log, pids, i, log)
		}
		tk := task.NewTask()
		tk.Name = fmt.Sprint("t", i)
		switch c.Phase {
		case "before-hook":
			tk.Before = []string{long}
			tk.Commands = []string{fmt.Sprintf("printf 'C:%d\\n' >> %s", i, log)}
		case "second-command":
			tk.Commands = []string{fmt.Sprintf("printf 'F:%d\\n' >> %s", i, log), long, fmt.Sprintf("printf 'L:%d\\n' >> %s", i, log)}
		case "burst":
			for j := 0; j < burstN; j++ {
				tk.Commands = append(tk.Commands, fmt.Sprintf("printf 'B:%d:%d\\n' >> %s", i, j, log))
			}
		case "after-finish":
			tk.Commands = []string{fmt.Sprintf("printf 'Q:%d\\n' >> %s", i, log)}
		case "after-hook":
			// the long command is the task's first after command
			tk.Commands = []string{fmt.Sprintf("printf 'F:%d\\n' >> %s", i, log)}
			tk.After = []string{long, fmt.Sprintf("printf 'L:%d\\n' >> %s", i, log)}
		case "ctx-up", "ctx-before":
			// the long command belongs to the task's execution context
			tk.Commands = []string{fmt.Sprintf("printf 'K:%d\\n' >> %s", i, log)}
		default:
			tk.Commands = []string{long, fmt.Sprintf("printf 'L:%d\\n' >> %s", i, log)}
		}
		if c.Ctx {
			tk.Context = "cx"
		}
		tk.AllowFailure = c.Allow
		if c.Tmo {
			d := 90 * time.Second
			tk.Timeout = &d
		}
		return tk
	}
	var ropts []runner.Opts
	if c.Ctx {
		// the context's own commands are commands like any other: none may start once a Cancel call has returned
		var up []string
		before := []string{fmt.Sprintf("printf 'XB\\n' >> %s", log)}
		// a context command that takes a second (whether a cancel cuts it short or waits for it is not stated), with
		// further commands behind it
		slow := fmt.Sprintf("printf 'XS\\n' >> %s; sh -c 'echo $$ >> %s; exec sleep 1'; printf 'XE\\n' >> %s", log, pids, log)
		switch c.Phase {
		case "ctx-up":
			up = []string{slow, fmt.Sprintf("printf 'XU2\\n' >> %s", log)}
		case "ctx-before":
			before = []string{slow, fmt.Sprintf("printf 'XB2\\n' >> %s", log)}
		}
		ropts = append(ropts, runner.WithContexts(map[string]*runner.ExecutionContext{"cx": runner.NewExecutionContext(nil, "", variables.NewVariables(), up, nil,
			before, []string{fmt.Sprintf("sleep 0.03; printf 'XA\\n' >> %s", log)})}))
	}
	r, err := runner.NewTaskRunner(ropts...)
	if err != nil {
		return "NewTaskRunner: " + err.Error()
	}
	r.Stdout, r.Stderr = io.Discard, io.Discard
	errs := make([]error, c.K)
	var wg sync.WaitGroup
	var sd *scheduler.Scheduler
	var waiting, inflight []*scheduler.Stage
	schedDone := make(chan error, 1)
	useSched := c.Via != "runner"
	var graph *scheduler.ExecutionGraph
	if useSched {
		var ss []*scheduler.Stage
		for i := 0; i < c.K; i++ {
			tk := mk(i)
			st := &scheduler.Stage{Name: tk.Name, Task: tk}
			ss = append(ss, st)
			inflight = append(inflight, st)
		}
		for j := 0; j < c.W; j++ {
			tk := task.FromCommands(fmt.Sprintf("printf 'W:%d\\n' >> %s", j, log))
			tk.Name = fmt.Sprint("w", j)
			st := &scheduler.Stage{Name: tk.Name, Task: tk, DependsOn: []string{"t0"}}
			ss = append(ss, st)
			waiting = append(waiting, st)
		}
		if c.Via == "condition" {
			tk := task.FromCommands(fmt.Sprintf("printf 'X\\n' >> %s", log))
			tk.Name = "badcond"
			st := &scheduler.Stage{Name: "badcond", Task: tk, Condition: "/nonexistent/verif-cond"}
			if c.Nested {
				// the condition error happens inside a pipeline that runs as a stage of the outer one
				side := task.FromCommands(fmt.Sprintf("printf 'Y\\n' >> %s", log))
				side.Name = "inner-side"
				inner, err := scheduler.NewExecutionGraph(st, &scheduler.Stage{Name: "inner-side", Task: side})
				if err != nil {
					return "graph: " + err.Error()
				}
				st = &scheduler.Stage{Name: "nesting", Pipeline: inner}
			}
			if c.CondAt > 0 && c.K > 0 {
				// evaluated on every pass while waiting: fires on the first pass whatever it depends on
				st.DependsOn = []string{"t0"}
			}
			if c.Nested && c.CondAt > 0 {
				st.DependsOn = nil // a nesting stage that waits for t0 would never start: t0 runs for 30 s
			}
			ss = append(ss, st)
		}
		g, err := scheduler.NewExecutionGraph(ss...)
		if err != nil {
			return "graph: " + err.Error()
		}
		graph = g
		sd = scheduler.NewScheduler(r)
	}
	// markers in the log when a Cancel call returned (the smallest count over the calls): nothing may be
	// added afterwards
	var snapMu sync.Mutex
	atCancel := -1
	cancel := func() {
		if useSched {
			sd.Cancel()
		} else {
			r.Cancel()
		}
		n := len(readLines(log))
		snapMu.Lock()
		if atCancel < 0 || n < atCancel {
			atCancel = n
		}
		snapMu.Unlock()
	}
	// whenever a Cancel call returns, the commands it interrupted must be gone: checked at the return of
	// every call, also of the one that returns first when two overlap
	var earlyMu sync.Mutex
	early := ""
	checkGone := func(which string) {
		for _, p := range readLines(pids) {
			pid, _ := strconv.Atoi(p)
			if !waitFor(func() bool { return syscall.Kill(pid, 0) != nil }, 150*time.Millisecond) {
				earlyMu.Lock()
				if early == "" {
					early = fmt.Sprintf("%s Cancel call returned while process %d of an interrupted command was still running", which, pid)
				}
				earlyMu.Unlock()
			}
		}
	}
	doCancel := func() string {
		done := make(chan struct{})
		go func() {
			switch c.Double {
			case "twice-conc":
				var w2 sync.WaitGroup
				w2.Add(2)
				go func() { defer w2.Done(); cancel(); checkGone("the first") }()
				go func() {
					defer w2.Done()
					time.Sleep(time.Duration(c.DelayMs) * time.Millisecond)
					cancel()
					checkGone("an overlapping second")
				}()
				w2.Wait()
			case "twice-seq":
				cancel()
				cancel()
			default:
				cancel()
			}
			close(done)
		}()
		select {
		case <-done:
			earlyMu.Lock()
			defer earlyMu.Unlock()
			return early
		case <-time.After(bound):
			return fmt.Sprintf("Cancel did not return within %v", bound)
		}
	}
	start := func() {
		if useSched {
			go func() { schedDone <- sd.Schedule(graph) }()
			return
		}
		for i := 0; i < c.K; i++ {
			tk := mk(i)
			wg.Add(1)
			go func(i int) { defer wg.Done(); errs[i] = r.Run(tk) }(i)
		}
	}
	awaitReturn := func() string {
		if useSched {
			select {
			case <-schedDone:
			case <-time.After(bound):
				return fmt.Sprintf("Schedule did not return within %v after the cancel", bound)
			}
			return ""
		}
		ch := make(chan struct{})
		go func() { wg.Wait(); close(ch) }()
		select {
		case <-ch:
		case <-time.After(bound):
			return fmt.Sprintf("Run did not return within %v after the cancel", bound)
		}
		return ""
	}

	if c.Via == "condition" {
		// the run cancels itself; it must return, kill what it started and start nothing afterwards
		start()
		if m := awaitReturn(); m != "" {
			return m + " (unevaluable stage condition)"
		}
	} else {
		switch c.Phase {
		case "before-run":
			if m := doCancel(); m != "" {
				return m + " (nothing was ever started)"
			}
			start()
			if m := awaitReturn(); m != "" {
				return m
			}
		case "after-finish":
			start()
			if !useSched {
				wg.Wait()
			} else {
				select {
				case <-schedDone:
				case <-time.After(bound):
					return "setup: the short pipeline did not finish"
				}
				schedDone <- nil
			}
			if m := doCancel(); m != "" {
				return m + " (every task had finished)"
			}
		case "burst":
			start()
			if !waitFor(func() bool { return len(readLines(log)) >= c.BurstM }, bound) {
				return "setup: burst did not reach the marker"
			}
			if m := doCancel(); m != "" {
				return m
			}
			if m := awaitReturn(); m != "" {
				return m
			}
		default:
			start()
			need := c.K
			if c.Phase == "ctx-up" {
				need = 1 // up runs once for all tasks of the context
			}
			if !waitFor(func() bool { return len(readLines(pids)) >= need }, bound) {
				return fmt.Sprintf("setup: only %d of %d tasks reached the long command", len(readLines(pids)), c.K)
			}
			time.Sleep(time.Duration(c.DelayMs) * time.Millisecond)
			if m := doCancel(); m != "" {
				return m
			}
			if m := awaitReturn(); m != "" {
				return m
			}
		}
	}
	atReturn := readLines(log)
	// the commands that were running are terminated
	for _, p := range readLines(pids) {
		pid, _ := strconv.Atoi(p)
		if !waitFor(func() bool { return syscall.Kill(pid, 0) != nil }, time.Duration(scale)*3*time.Second) {
			return fmt.Sprintf("process %d started by a command is still alive after the cancelled run returned", pid)
		}
	}
	time.Sleep(120 * time.Millisecond)
	after := readLines(log)
	if len(after) != len(atReturn) {
		return fmt.Sprintf("commands were started or continued after cancellation completed: %v (had %d markers)", after[len(atReturn):], len(atReturn))
	}
	snapMu.Lock()
	ac := atCancel
	snapMu.Unlock()
	if ac >= 0 && c.Phase != "after-finish" && len(after) > ac {
		return fmt.Sprintf("commands were started after a Cancel call had returned: %v (the log had %d markers when it returned)", after[ac:], ac)
	}
	for _, l := range after {
		if strings.HasPrefix(l, "E:") || strings.HasPrefix(l, "L:") || (c.Phase == "before-hook" && strings.HasPrefix(l, "C:")) {
			return fmt.Sprintf("marker %s: an interrupted task carried on (log %v)", l, after)
		}
		if strings.HasPrefix(l, "W:") && c.Via != "condition" && c.Phase != "after-finish" {
			return fmt.Sprintf("marker %s: a waiting stage ran although its dependency was interrupted (log %v)", l, after)
		}
	}
	if c.Phase == "before-run" && len(after) > 0 {
		return fmt.Sprintf("commands were started after a completed cancellation: %v", after)
	}
	if !useSched && c.Phase != "after-finish" {
		for i, e := range errs {
			complete := false
			if c.Phase == "burst" {
				n := 0
				for _, l := range after {
					if strings.HasPrefix(l, fmt.Sprintf("B:%d:", i)) {
						n++
					}
				}
				complete = n == burstN
			}
			if c.Phase == "after-hook" {
				// the task's own commands were through: cutting its after hook short does not make it a failure
				continue
			}
			if e == nil && !complete {
				return fmt.Sprintf("task %d was interrupted (or never started) but Run returned nil", i)
			}
		}
	}
	if useSched && c.Via != "condition" && (c.Phase == "command" || c.Phase == "second-command" || c.Phase == "before-hook") {
		for _, st := range inflight {
			if st.ReadStatus() == scheduler.StatusDone {
				return fmt.Sprintf("stage %s was interrupted inside a command and is reported done", st.Name)
			}
		}
	}
	if useSched && c.Via != "condition" && c.Phase != "after-finish" {
		for _, st := range waiting {
			if st.ReadStatus() == scheduler.StatusDone {
				return fmt.Sprintf("waiting stage %s is reported done after the cancel", st.Name)
			}
		}
	}
	// a run attempted after the cancel reports an error and starts nothing
	late := task.FromCommands(fmt.Sprintf("printf 'LATE\\n' >> %s", log))
	late.Name = "late"
	lateErr := make(chan error, 1)
	go func() { lateErr <- r.Run(late) }()
	select {
	case e := <-lateErr:
		if e == nil {
			return "a Run attempted after the cancel returned nil"
		}
	case <-time.After(bound):
		return "a Run attempted after the cancel did not return"
	}
	if strings.Contains(strings.Join(readLines(log), " "), "LATE") {
		return "a command was started after cancellation completed"
	}
	return ""
}

func childMain() {
	var c Case
	b, err := os.ReadFile(os.Getenv("VERIF_CHILD_CASE"))
	if err != nil || json.Unmarshal(b, &c) != nil {
		os.Exit(97)
	}
	scale, _ := strconv.Atoi(os.Getenv("VERIF_CHILD_SCALE"))
	if scale < 1 {
		scale = 1
	}
	dir := filepath.Dir(os.Getenv("VERIF_CHILD_CASE"))
	msg := scenario(c, dir, scale)
	os.WriteFile(os.Getenv("VERIF_CHILD_OUT"), []byte(msg), 0o644)
	if msg != "" {
		os.Exit(10)
	}
	os.Exit(0)
}

type childResult struct {
	msg      string
	exit     int
	timedOut bool
	stderr   string
	wall     time.Duration
}

func runChild(c Case, dir string, scale int) childResult {
	cf := filepath.Join(dir, "case.json")
	of := filepath.Join(dir, "out.txt")
	os.WriteFile(cf, []byte(c.canon()), 0o644)
	os.Remove(of)
	for _, f := range []string{"log", "pids"} {
		os.Remove(filepath.Join(dir, f))
	}
	timeout := time.Duration(scale) * 30 * time.Second
	ctx, cancel := context.WithTimeout(context.Background(), timeout)
	defer cancel()
	cmd := exec.CommandContext(ctx, os.Args[0], "-test.run", "^$")
	cmd.Env = append(os.Environ(), "VERIF_CHILD_CASE="+cf, "VERIF_CHILD_OUT="+of, fmt.Sprint("VERIF_CHILD_SCALE=", scale), "VERIF_OUT=", "VERIF_FAIL=", "VERIF_PENDING=")
	cmd.SysProcAttr = &syscall.SysProcAttr{Setpgid: true}
	cmd.Cancel = func() error {
		syscall.Kill(cmd.Process.Pid, syscall.SIGQUIT)
		time.Sleep(200 * time.Millisecond)
		return syscall.Kill(-cmd.Process.Pid, syscall.SIGKILL)
	}
	cmd.WaitDelay = 2 * time.Second
	var se bytes.Buffer
	cmd.Stdout, cmd.Stderr = io.Discard, &se
	start := time.Now()
	err := cmd.Run()
	if cmd.Process != nil {
		syscall.Kill(-cmd.Process.Pid, syscall.SIGKILL) // sleepers the child left behind
	}
	cr := childResult{stderr: se.String(), wall: time.Since(start)}
	if ctx.Err() != nil {
		cr.timedOut = true
		return cr
	}
	if err != nil {
		if ee, ok := err.(*exec.ExitError); ok {
			cr.exit = ee.ExitCode()
		} else {
			cr.exit = -2
		}
	}
	if b, e := os.ReadFile(of); e == nil {
		cr.msg = string(b)
	}
	return cr
}

// decideCase runs the child; a breached time bound is re-tried once with 5x bounds.
func decideCase(c Case, dir string) error {
	cr := runChild(c, dir, 1)
	if cr.exit == 0 && !cr.timedOut {
		return nil
	}
	timing := cr.timedOut || strings.Contains(cr.msg, "did not return") || strings.Contains(cr.msg, "setup:") || strings.Contains(cr.msg, "still alive")
	if timing {
		drv.Class("retry-with-5x-bounds")
		cr2 := runChild(c, dir, 5)
		if cr2.exit == 0 && !cr2.timedOut {
			drv.Note("a time bound was breached once and held on the 5x retry (machine load?): %s", cr.msg)
			return nil
		}
		cr = cr2
	}
	switch {
	case cr.timedOut:
		return fmt.Errorf("the process wedged (no verdict within its bound): %s", clip(cr.stderr, 1500))
	case cr.exit == 10:
		if strings.HasPrefix(cr.msg, "setup:") {
			drv.Note("inconclusive set-up: %s", cr.msg)
			fmt.Println("VERIF-INCONCLUSIVE", cr.msg)
			os.Exit(3)
		}
		return fmt.Errorf("%s", cr.msg)
	default:
		return fmt.Errorf("the process crashed (exit %d): %s", cr.exit, clip(cr.stderr, 1500))
	}
}

func clip(s string, n int) string {
	if i := strings.Index(s, "panic:"); i > 0 {
		s = s[i:]
	}
	if len(s) > n {
		return s[:n] + "…"
	}
	return s
}

func record(c Case) {
	drv.Eval(fmt.Sprintf("in-flight=%d", c.K), fmt.Sprintf("waiting=%d", c.W), "phase="+c.Phase, "via="+c.Via, "cancel="+c.Double)
	if c.Ctx {
		drv.Class("tasks in a context with before/after commands")
	}
	if c.Allow || c.Tmo {
		drv.Class("tasks with allow_failure and/or a timeout of their own")
	}
	drv.NonTrivial(fmt.Sprintf("%d/%d/%s/%s/%s/%v/%v/%v", c.K, c.W, c.Phase, c.Double, c.Via, c.Stubborn, c.Nested, c.Ctx) + fmt.Sprint(c.Allow, c.Tmo))
}

func normalise(c Case) Case {
	if c.Via == "runner" || c.K == 0 {
		c.W = 0
	}
	if c.Via == "condition" {
		c.Phase, c.Double = "command", "once"
	} else {
		c.Nested = false
	}
	if c.Phase == "burst" {
		if c.K == 0 {
			c.Phase = "before-run"
		}
		if c.BurstM < 1 {
			c.BurstM = 1
		}
	} else {
		c.BurstM = 0
	}
	if c.Phase == "after-finish" || c.Phase == "before-run" || c.Phase == "burst" {
		c.DelayMs = 0
		c.Stubborn = false
	}
	if c.K == 0 || c.Via == "condition" {
		c.Stubborn = false
	}
	if c.Phase == "ctx-up" || c.Phase == "ctx-before" {
		if c.K == 0 || c.Via == "condition" {
			c.Phase = "command"
		} else {
			c.Ctx, c.Stubborn = true, false
		}
	}
	return c
}

var phases = []string{"before-run", "before-hook", "command", "second-command", "burst", "after-finish", "ctx-up", "ctx-before", "after-hook"}

func genCase(rt *rapid.T) Case {
	c := Case{
		K:        rapid.IntRange(0, 4).Draw(rt, "in_flight"),
		W:        rapid.IntRange(0, 3).Draw(rt, "waiting"),
		Phase:    rapid.SampledFrom(phases).Draw(rt, "phase"),
		Double:   rapid.SampledFrom([]string{"once", "once", "twice-seq", "twice-conc"}).Draw(rt, "double"),
		Via:      rapid.SampledFrom([]string{"runner", "scheduler", "scheduler", "condition"}).Draw(rt, "via"),
		BurstM:   rapid.IntRange(1, 120).Draw(rt, "burst_marker"),
		CondAt:   rapid.IntRange(0, 1).Draw(rt, "cond_at"),
		DelayMs:  rapid.SampledFrom([]int{0, 0, 1, 5, 20, 50}).Draw(rt, "delay"),
		Stubborn: rapid.IntRange(0, 3).Draw(rt, "stubborn") == 0,
		Nested:   rapid.Bool().Draw(rt, "nested-condition"),
		Ctx:      rapid.IntRange(0, 2).Draw(rt, "context-hooks") == 0,
		Allow:    rapid.IntRange(0, 2).Draw(rt, "allow-failure") == 0,
		Tmo:      rapid.IntRange(0, 2).Draw(rt, "own-timeout") == 0,
	}
	return normalise(c)
}

func onlyCondition() bool { return drv.Part() == "realrunner" }

// TestCancel: rapid cases over (in flight, waiting, injection point, once/twice, runner/scheduler/condition).
func TestCancel(t *testing.T) {
	root := t.TempDir()
	k := 0
	rapid.Check(t, func(rt *rapid.T) {
		c := genCase(rt)
		if onlyCondition() {
			// C03: a run cancelled by the caller or by an unevaluable condition still returns (real TaskRunner)
			c.Via = rapid.SampledFrom([]string{"condition", "scheduler"}).Draw(rt, "via03")
			c = normalise(c)
		}
		k++
		dir := filepath.Join(root, fmt.Sprint("c", k))
		os.MkdirAll(dir, 0o755)
		defer os.RemoveAll(dir)
		record(c)
		drv.Sample(c)
		if err := decideCase(c, dir); err != nil {
			drv.Fail(rt, drv.Part(), "", c, "%v; case %s", err, c.canon())
		}
	})
}

// TestMatrix enumerates in-flight 0..4 x waiting {0,2} x every injection point x once/twice x runner/scheduler,
// plus the condition-error cases.
func TestMatrix(t *testing.T) {
	root := t.TempDir()
	idx, nsh := drv.Shard()
	n := 0
	var cases []Case
	seen := map[string]bool{}
	for k := 0; k <= 4; k++ {
		for _, w := range []int{0, 2} {
			for _, ph := range phases {
				for _, d := range []string{"once", "twice-seq", "twice-conc"} {
					for _, via := range []string{"runner", "scheduler"} {
						c := normalise(Case{K: k, W: w, Phase: ph, Double: d, Via: via, BurstM: 40})
						if !seen[c.canon()] {
							seen[c.canon()] = true
							cases = append(cases, c)
						}
					}
				}
			}
			for _, d := range []string{"once", "twice-conc"} {
				if k == 0 {
					continue
				}
				c := normalise(Case{K: k, W: w, Phase: "command", Double: d, Via: "runner", Stubborn: true, DelayMs: 50})
				if !seen[c.canon()] {
					seen[c.canon()] = true
					cases = append(cases, c)
				}
			}
			for _, ph := range []string{"before-hook", "command", "second-command", "burst"} {
				for _, via := range []string{"runner", "scheduler"} {
					if k == 0 {
						continue
					}
					c := normalise(Case{K: k, W: w, Phase: ph, Double: "once", Via: via, BurstM: 40, Ctx: true})
					if !seen[c.canon()] {
						seen[c.canon()] = true
						cases = append(cases, c)
					}
				}
			}
			for fl := 1; fl < 4; fl++ {
				for _, ph := range []string{"command", "second-command", "before-hook"} {
					if k == 0 || (ph != "command" && (k > 2 || w > 0)) {
						continue
					}
					for _, via := range []string{"runner", "scheduler"} {
						c := normalise(Case{K: k, W: w, Phase: ph, Double: "once", Via: via, Allow: fl&1 != 0, Tmo: fl&2 != 0})
						if !seen[c.canon()] {
							seen[c.canon()] = true
							cases = append(cases, c)
						}
					}
				}
			}
			for at := 0; at < 4; at++ {
				c := normalise(Case{K: k, W: w, Via: "condition", CondAt: at % 2, Nested: at >= 2})
				if !seen[c.canon()] {
					seen[c.canon()] = true
					cases = append(cases, c)
				}
			}
		}
	}
	for _, c := range cases {
		n++
		if n%nsh != idx {
			continue
		}
		if !drv.Thorough() && c.Double != "once" && c.K > 2 {
			continue // the quick tier keeps the double-cancel rows for 0..2 in flight
		}
		dir := filepath.Join(root, fmt.Sprint("m", n))
		os.MkdirAll(dir, 0o755)
		record(c)
		drv.Sample(c)
		err := decideCase(c, dir)
		os.RemoveAll(dir)
		if err != nil {
			drv.Fail(t, "matrix", "", c, "%v; case %s", err, c.canon())
		}
	}
	if drv.Thorough() {
		drv.SetExhaustive()
	}
}

func TestReplay(t *testing.T) {
	_, raw, ok := drv.ReplayFile()
	if !ok {
		t.Skip("no replay requested")
	}
	var c Case
	if err := json.Unmarshal(raw, &c); err != nil {
		t.Fatal(err)
	}
	for i := 0; i < 3; i++ {
		if err := decideCase(c, t.TempDir()); err != nil {
			drv.Fail(t, "replay", "", c, "%v", err)
		}
	}
}
