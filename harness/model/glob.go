// Package model holds the reference models.
package model

import "strings"

// GlobMatch is the reference matcher for the restricted pattern grammar:
// segments separated by '/', each either "**" (zero or more whole segments; as the last
// segment: one or more) or a sequence of literals, '*' and '?' that never cross a '/'.
func GlobMatch(pattern, path string) bool {
	return matchSegs(strings.Split(pattern, "/"), strings.Split(path, "/"))
}

func matchSegs(p, s []string) bool {
	if len(p) == 0 {
		return len(s) == 0
	}
	if p[0] == "**" {
		if len(p) == 1 {
			return len(s) >= 1
		}
		for k := 0; k <= len(s); k++ {
			if matchSegs(p[1:], s[k:]) {
				return true
			}
		}
		return false
	}
	if len(s) == 0 {
		return false
	}
	return matchSeg(p[0], s[0]) && matchSegs(p[1:], s[1:])
}

func matchSeg(p, s string) bool {
	if p == "" {
		return s == ""
	}
	switch p[0] {
	case '*':
		for k := 0; k <= len(s); k++ {
			if matchSeg(p[1:], s[k:]) {
				return true
			}
		}
		return false
	case '?':
		return s != "" && matchSeg(p[1:], s[1:])
	default:
		return s != "" && s[0] == p[0] && matchSeg(p[1:], s[1:])
	}
}
