package gen

import (
	"fmt"

	"pgregory.net/rapid"
)

// ConfigOpts tunes the valid-configuration generator.
type ConfigOpts struct {
	Dir       string // absolute directory usable for dir: fields and env files
	NoNumbers bool
	MaxTasks  int
	Nulls     bool // values of env / variables maps may be null (YAML and JSON can say that, TOML cannot)
}

func strOrList(t *rapid.T, label string, items []string) Node {
	if len(items) == 1 && rapid.Bool().Draw(t, label+"_scalar") {
		return items[0]
	}
	l := make(List, len(items))
	for i, s := range items {
		l[i] = s
	}
	return l
}

var words = []string{"line\n", "two\nlines\n", "\nlead", "alpha", "beta", "x y", "with \"quote\"", "üñí", "a=b", "semi;colon", "", "tab\there", "123", "true", "no", "1e3", "0x10", "~", "null", "rocket🚀", "𝔘nicode beyond the BMP"}

func word(t *rapid.T, label string) string { return rapid.SampledFrom(words).Draw(t, label) }

func scalarForString(t *rapid.T, label string, o ConfigOpts) Node {
	if o.Nulls && rapid.IntRange(0, 3).Draw(t, label+"_null") == 0 {
		return nil
	}
	if !o.NoNumbers {
		switch rapid.IntRange(0, 9).Draw(t, label+"_kind") {
		case 0:
			if rapid.Bool().Draw(t, label+"_bigint") {
				// magnitudes at which a float64 prints in exponent form unless it is converted deliberately
				return rapid.SampledFrom([]int64{1000000, 20200101, 1234567890123, 9007199254740991, -1000000, 100000000000000000}).Draw(t, label+"_big")
			}
			return int64(rapid.IntRange(-1000, 100000).Draw(t, label+"_int"))
		case 1:
			return rapid.Bool().Draw(t, label+"_bool")
		case 2:
			if rapid.IntRange(0, 3).Draw(t, label+"_oddfloat") == 0 {
				return rapid.SampledFrom([]float64{0.00001, 123456789.5, 1e-7, 2.5e10}).Draw(t, label+"_odd")
			}
			if rapid.IntRange(0, 3).Draw(t, label+"_spelling") == 0 {
				// the same number in a spelling that is not its shortest one
				return NumLit(rapid.SampledFrom([]string{"1.0", "2.50", "1e3", "12.0", "0.50", "1.5e2", "-3.0"}).Draw(t, label+"_lit"))
			}
			return float64(rapid.IntRange(-500, 500).Draw(t, label+"_f")) / 4
		}
	}
	return word(t, label)
}

func envMap(t *rapid.T, label string, o ConfigOpts) Map {
	n := rapid.IntRange(0, 3).Draw(t, label+"_n")
	var m Map
	for i := 0; i < n; i++ {
		k := rapid.SampledFrom([]string{"K1", "K2", "K3", "lower", "MiXed"}).Draw(t, label+"_k")
		m = m.Set(k, scalarForString(t, label+"_v", o))
	}
	if m == nil {
		m = Map{}
	}
	return m
}

func cmds(t *rapid.T, label string, tok string, max int) []string {
	n := rapid.IntRange(1, max).Draw(t, label+"_n")
	out := make([]string, n)
	for i := range out {
		switch rapid.IntRange(0, 5).Draw(t, label+"_kind") {
		case 0:
			out[i] = fmt.Sprintf("printf '%s-%d K1=%%s K2=%%s V=%%s\\n' \"$K1\" \"$K2\" \"$V\"", tok, i)
		case 1:
			out[i] = fmt.Sprintf("printf '%s-%d\\n'; exit %d", tok, i, rapid.IntRange(0, 3).Draw(t, label+"_st"))
		case 2:
			out[i] = fmt.Sprintf("printf '%s-%d v=%%s\\n' '{{ index . \"v1\" }}'", tok, i)
		case 3:
			// every variable name the generator uses, at whatever level it was defined
			out[i] = fmt.Sprintf("printf '%s-%d vars=%%s|%%s|%%s|%%s|%%s env=%%s|%%s\\n' '{{ index . \"K1\" }}' '{{ index . \"K2\" }}' '{{ index . \"K3\" }}' '{{ index . \"lower\" }}' '{{ index . \"MiXed\" }}' \"$K3\" \"$lower\"", tok, i)
		default:
			out[i] = fmt.Sprintf("printf '%s-%d\\n'", tok, i)
		}
	}
	return out
}

func duration(t *rapid.T, label string) Node {
	if rapid.Bool().Draw(t, label+"_str") {
		return rapid.SampledFrom([]string{"2s", "1500ms", "1m", "1h2m"}).Draw(t, label)
	}
	return int64(rapid.IntRange(1, 5).Draw(t, label+"_s")) * 1_000_000_000
}

// ValidConfig draws a configuration that taskctl is expected to accept.
func ValidConfig(t *rapid.T, o ConfigOpts) Map {
	if o.MaxTasks == 0 {
		o.MaxTasks = 4
	}
	nt := rapid.IntRange(1, o.MaxTasks).Draw(t, "ntasks")
	nctx := rapid.IntRange(0, 2).Draw(t, "nctx")
	var ctxNames []string
	contexts := Map{}
	for i := 0; i < nctx; i++ {
		name := fmt.Sprintf("cx%d", i)
		ctxNames = append(ctxNames, name)
		c := Map{}
		if rapid.Bool().Draw(t, "cx_env") {
			c = c.Set("env", envMap(t, "cxenv", o))
		}
		for _, h := range []string{"up", "down", "before", "after"} {
			if rapid.IntRange(0, 2).Draw(t, "cx_"+h) == 0 {
				c = c.Set(h, strOrList(t, "cx_"+h, []string{"true"}))
			}
		}
		if rapid.IntRange(0, 3).Draw(t, "cx_vars") == 0 {
			c = c.Set("variables", envMap(t, "cxvars", ConfigOpts{NoNumbers: o.NoNumbers}))
		}
		if false && rapid.IntRange(0, 3).Draw(t, "cx_exec") == 0 { // TODO quote-free commands for executable contexts
			c = c.Set("executable", Map{{"bin", "/bin/sh"}, {"args", List{"-c"}}})
			c = c.Set("quote", "'")
		}
		if rapid.IntRange(0, 3).Draw(t, "cx_dir") == 0 && o.Dir != "" {
			c = c.Set("dir", o.Dir)
		}
		contexts = contexts.Set(name, c)
	}
	tasks := Map{}
	var taskNames []string
	for i := 0; i < nt; i++ {
		name := fmt.Sprintf("t%d", i)
		if rapid.IntRange(0, 4).Draw(t, "t_oddname") == 0 {
			name = rapid.SampledFrom([]string{"task with space", "dotted.name", "colon:name", "UPPER"}).Draw(t, "t_name") + fmt.Sprint(i)
		}
		taskNames = append(taskNames, name)
		tk := Map{{"command", strOrList(t, "t_cmd", cmds(t, "t_cmd", fmt.Sprintf("T%d", i), 3))}}
		if rapid.Bool().Draw(t, "t_desc") {
			tk = tk.Set("description", scalarForString(t, "t_desc", o))
		}
		if rapid.IntRange(0, 2).Draw(t, "t_env") == 0 {
			tk = tk.Set("env", envMap(t, "t_env", o))
		}
		if rapid.IntRange(0, 2).Draw(t, "t_vars") == 0 {
			tk = tk.Set("variables", envMap(t, "t_vars", ConfigOpts{NoNumbers: o.NoNumbers}).Set("v1", word(t, "t_v1")))
		}
		if rapid.IntRange(0, 3).Draw(t, "t_variations") == 0 {
			nv := rapid.IntRange(0, 3).Draw(t, "t_nv")
			l := List{}
			for j := 0; j < nv; j++ {
				l = append(l, Map{{"V", scalarForString(t, "t_var_v", o)}})
			}
			tk = tk.Set("variations", l)
		}
		if rapid.IntRange(0, 3).Draw(t, "t_timeout") == 0 {
			tk = tk.Set("timeout", duration(t, "t_timeout"))
		}
		if rapid.IntRange(0, 3).Draw(t, "t_allow") == 0 {
			tk = tk.Set("allow_failure", rapid.Bool().Draw(t, "t_allow_v"))
		}
		for _, h := range []string{"before", "after"} {
			if rapid.IntRange(0, 3).Draw(t, "t_"+h) == 0 {
				tk = tk.Set(h, strOrList(t, "t_"+h, cmds(t, "t_"+h, fmt.Sprintf("%s%d", h, i), 2)))
			}
		}
		if rapid.IntRange(0, 4).Draw(t, "t_cond") == 0 {
			tk = tk.Set("condition", rapid.SampledFrom([]string{"true", "exit 1", "exit 0"}).Draw(t, "t_cond_v"))
		}
		if len(ctxNames) > 0 && rapid.Bool().Draw(t, "t_ctx") {
			tk = tk.Set("context", rapid.SampledFrom(ctxNames).Draw(t, "t_ctx_v"))
		}
		if rapid.IntRange(0, 4).Draw(t, "t_export") == 0 {
			tk = tk.Set("exportAs", "EXPORTED_"+fmt.Sprint(i))
		}
		if rapid.IntRange(0, 4).Draw(t, "t_dir") == 0 && o.Dir != "" {
			tk = tk.Set("dir", o.Dir)
		}
		if rapid.IntRange(0, 5).Draw(t, "t_interactive") == 0 {
			tk = tk.Set("interactive", false)
		}
		tasks = tasks.Set(name, tk)
	}
	np := rapid.IntRange(0, 3).Draw(t, "npipes")
	pipelines := Map{}
	var pipeNames, freePipes []string
	for i := 0; i < np; i++ {
		name := fmt.Sprintf("p%d", i)
		ns := rapid.IntRange(1, 4).Draw(t, "nstages")
		var stages List
		var stageNames []string
		for j := 0; j < ns; j++ {
			st := Map{}
			sname := fmt.Sprintf("s%d_%d", i, j)
			st = st.Set("name", sname)
			if len(freePipes) > 0 && rapid.IntRange(0, 4).Draw(t, "s_pipe") == 0 {
				// a pipeline is included at most once in a configuration: two stages scheduling the
				// same graph object have no stated semantics
				k := rapid.IntRange(0, len(freePipes)-1).Draw(t, "s_pipe_v")
				st = st.Set("pipeline", freePipes[k])
				freePipes = append(freePipes[:k:k], freePipes[k+1:]...)
			} else {
				st = st.Set("task", rapid.SampledFrom(taskNames).Draw(t, "s_task"))
			}
			var deps []string
			for _, prev := range stageNames {
				if rapid.IntRange(0, 2).Draw(t, "s_dep") == 0 {
					deps = append(deps, prev)
				}
			}
			if len(deps) > 0 {
				st = st.Set("depends_on", strOrList(t, "s_deps", deps))
			}
			if rapid.IntRange(0, 3).Draw(t, "s_allow") == 0 {
				st = st.Set("allow_failure", true)
			}
			if rapid.IntRange(0, 3).Draw(t, "s_env") == 0 {
				st = st.Set("env", envMap(t, "s_env", o))
			}
			if rapid.IntRange(0, 3).Draw(t, "s_vars") == 0 {
				st = st.Set("variables", envMap(t, "s_vars", ConfigOpts{NoNumbers: o.NoNumbers}))
			}
			if rapid.IntRange(0, 5).Draw(t, "s_cond") == 0 {
				st = st.Set("condition", rapid.SampledFrom([]string{"true", "false"}).Draw(t, "s_cond_v"))
			}
			stageNames = append(stageNames, sname)
			stages = append(stages, st)
		}
		pipelines = pipelines.Set(name, stages)
		pipeNames = append(pipeNames, name)
		freePipes = append(freePipes, name)
	}
	cfg := Map{}
	if rapid.IntRange(0, 2).Draw(t, "top_vars") == 0 {
		cfg = cfg.Set("variables", envMap(t, "top_vars", ConfigOpts{NoNumbers: o.NoNumbers}))
	}
	if rapid.IntRange(0, 4).Draw(t, "top_debug") == 0 {
		cfg = cfg.Set("debug", false)
	}
	if rapid.IntRange(0, 4).Draw(t, "top_output") == 0 {
		cfg = cfg.Set("output", rapid.SampledFrom([]string{"raw", "prefixed"}).Draw(t, "top_output_v"))
	}
	if len(contexts) > 0 {
		cfg = cfg.Set("contexts", contexts)
	}
	cfg = cfg.Set("tasks", tasks)
	if len(pipelines) > 0 {
		cfg = cfg.Set("pipelines", pipelines)
	}
	if rapid.IntRange(0, 2).Draw(t, "watchers") == 0 {
		w := Map{
			{"watch", strOrList(t, "w_watch", []string{"*.md"})},
			{"task", rapid.SampledFrom(taskNames).Draw(t, "w_task")},
		}
		if rapid.Bool().Draw(t, "w_ex") {
			w = w.Set("exclude", strOrList(t, "w_ex", []string{"x.md"}))
		}
		if rapid.Bool().Draw(t, "w_ev") {
			w = w.Set("events", strOrList(t, "w_ev", []string{"write"}))
		}
		cfg = cfg.Set("watchers", Map{{"w0", w}})
	}
	return cfg
}
