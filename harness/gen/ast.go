// Package gen holds generators and the format-independent configuration tree with its three emitters.
package gen

import (
	"encoding/json"
	"fmt"
	"sort"
	"strconv"
	"strings"
)

// Node is one of: Map, List, string, bool, int64, float64, nil.
type Node interface{}

// KV is one entry of an ordered map.
type KV struct {
	K string
	V Node
}

// Map is an ordered string-keyed map.
type Map []KV

// List is a list of nodes.
type List []Node

func (m Map) Get(k string) (Node, bool) {
	for _, e := range m {
		if e.K == k {
			return e.V, true
		}
	}
	return nil, false
}

func (m Map) Set(k string, v Node) Map {
	for i, e := range m {
		if e.K == k {
			m[i].V = v
			return m
		}
	}
	return append(m, KV{k, v})
}

func (m Map) Keys() []string {
	ks := make([]string, len(m))
	for i, e := range m {
		ks[i] = e.K
	}
	return ks
}

// ---------------------------------------------------------------- JSON

func JSON(n Node) string {
	var b strings.Builder
	writeJSON(&b, n)
	b.WriteByte('\n')
	return b.String()
}

func jstr(s string) string {
	x, _ := json.Marshal(s)
	return string(x)
}

func writeJSON(b *strings.Builder, n Node) {
	switch v := n.(type) {
	case nil:
		b.WriteString("null")
	case string:
		b.WriteString(jstr(v))
	case bool:
		b.WriteString(strconv.FormatBool(v))
	case int64:
		b.WriteString(strconv.FormatInt(v, 10))
	case int:
		b.WriteString(strconv.Itoa(v))
	case float64:
		b.WriteString(strconv.FormatFloat(v, 'f', -1, 64))
	case NumLit:
		b.WriteString(string(v))
	case Map:
		b.WriteByte('{')
		for i, e := range v {
			if i > 0 {
				b.WriteString(", ")
			}
			b.WriteString(jstr(plainKey(e.K)))
			b.WriteString(": ")
			writeJSON(b, e.V)
		}
		b.WriteByte('}')
	case List:
		b.WriteByte('[')
		for i, e := range v {
			if i > 0 {
				b.WriteString(", ")
			}
			writeJSON(b, e)
		}
		b.WriteByte(']')
	default:
		panic(fmt.Sprintf("json: unsupported %T", n))
	}
}

// ---------------------------------------------------------------- YAML (block style, every string double-quoted)

func YAML(n Node) string {
	var b strings.Builder
	m, ok := n.(Map)
	if !ok || len(m) == 0 {
		writeJSON(&b, n) // flow style is valid YAML
		b.WriteByte('\n')
		return b.String()
	}
	writeYAMLMap(&b, m, 0)
	return b.String()
}

func yscalar(n Node) (string, bool) {
	switch v := n.(type) {
	case nil:
		return "null", true
	case string:
		return jstr(v), true // JSON string syntax is a valid YAML double-quoted scalar
	case bool:
		return strconv.FormatBool(v), true
	case int64:
		return strconv.FormatInt(v, 10), true
	case int:
		return strconv.Itoa(v), true
	case float64:
		return strconv.FormatFloat(v, 'f', -1, 64), true
	case NumLit:
		return string(v), true
	case Map:
		if len(v) == 0 {
			return "{}", true
		}
	case List:
		if len(v) == 0 {
			return "[]", true
		}
	}
	return "", false
}

// NumLit is a number written with the given spelling in all three formats (1.0, 2.50, 1e3: valid float literals of
// YAML, JSON and TOML alike that are not the shortest spelling of their value).
type NumLit string

// RawKey marks a map key that the YAML emitter writes verbatim (unquoted): 1, true, null, [a] ...
// JSON and TOML write it as a string without the marker.
const RawKey = "\x00raw:"

func ykey(k string) string {
	if strings.HasPrefix(k, RawKey) {
		return strings.TrimPrefix(k, RawKey)
	}
	return jstr(k)
}

func plainKey(k string) string { return strings.TrimPrefix(k, RawKey) }

func writeYAMLMap(b *strings.Builder, m Map, ind int) {
	pad := strings.Repeat("  ", ind)
	for _, e := range m {
		b.WriteString(pad)
		b.WriteString(ykey(e.K))
		b.WriteString(":")
		writeYAMLValue(b, e.V, ind)
	}
}

func writeYAMLValue(b *strings.Builder, n Node, ind int) {
	if s, ok := yscalar(n); ok {
		b.WriteString(" " + s + "\n")
		return
	}
	switch v := n.(type) {
	case Map:
		b.WriteString("\n")
		writeYAMLMap(b, v, ind+1)
	case List:
		b.WriteString("\n")
		pad := strings.Repeat("  ", ind+1)
		for _, e := range v {
			b.WriteString(pad + "-")
			if s, ok := yscalar(e); ok {
				b.WriteString(" " + s + "\n")
				continue
			}
			switch x := e.(type) {
			case Map:
				// first key on the dash line
				b.WriteString(" " + ykey(x[0].K) + ":")
				writeYAMLValue(b, x[0].V, ind+2)
				writeYAMLMap(b, x[1:], ind+2)
			case List:
				var fb strings.Builder
				writeJSON(&fb, x)
				b.WriteString(" " + fb.String() + "\n")
			}
		}
	}
}

// ---------------------------------------------------------------- TOML

func tstr(s string) string {
	var b strings.Builder
	b.WriteByte('"')
	for _, r := range s {
		switch {
		case r == '"':
			b.WriteString(`\"`)
		case r == '\\':
			b.WriteString(`\\`)
		case r == '\n':
			b.WriteString(`\n`)
		case r == '\t':
			b.WriteString(`\t`)
		case r == '\r':
			b.WriteString(`\r`)
		case r < 0x20 || r == 0x7f:
			fmt.Fprintf(&b, `\u%04X`, r)
		default:
			b.WriteRune(r)
		}
	}
	b.WriteByte('"')
	return b.String()
}

func tinline(n Node) string {
	switch v := n.(type) {
	case string:
		return tstr(v)
	case bool:
		return strconv.FormatBool(v)
	case int64:
		return strconv.FormatInt(v, 10)
	case int:
		return strconv.Itoa(v)
	case float64:
		s := strconv.FormatFloat(v, 'f', -1, 64)
		if !strings.Contains(s, ".") {
			s += ".0"
		}
		return s
	case NumLit:
		return string(v)
	case List:
		parts := make([]string, len(v))
		for i, e := range v {
			parts[i] = tinline(e)
		}
		return "[" + strings.Join(parts, ", ") + "]"
	case Map:
		parts := make([]string, len(v))
		for i, e := range v {
			parts[i] = tstr(plainKey(e.K)) + " = " + tinline(e.V)
		}
		return "{" + strings.Join(parts, ", ") + "}"
	}
	panic(fmt.Sprintf("toml: unsupported %T", n))
}

func allMaps(l List) bool {
	if len(l) == 0 {
		return false
	}
	for _, e := range l {
		if _, ok := e.(Map); !ok {
			return false
		}
	}
	return true
}

// flat reports whether the map holds no nested map or list of maps (so it may be written inline).
func flat(m Map) bool {
	for _, e := range m {
		switch v := e.V.(type) {
		case Map:
			return false
		case List:
			if allMaps(v) {
				return false
			}
		}
	}
	return true
}

// TOML renders the tree; nil values are not representable and panic.
func TOML(n Node) string {
	m, ok := n.(Map)
	if !ok {
		panic("toml: top level must be a map")
	}
	var b strings.Builder
	writeTOMLTable(&b, m, nil)
	return b.String()
}

func writeTOMLTable(b *strings.Builder, m Map, path []string) {
	// scalars and inline values first
	var tables []KV
	for _, e := range m {
		switch v := e.V.(type) {
		case Map:
			tables = append(tables, e)
			continue
		case List:
			if allMaps(v) {
				nested := false
				for _, x := range v {
					if !flat(x.(Map)) {
						nested = true
					}
				}
				if nested || len(path) <= 1 { // stage lists: array of tables
					tables = append(tables, e)
					continue
				}
			}
		}
		b.WriteString(tstr(plainKey(e.K)) + " = " + tinline(e.V) + "\n")
	}
	for _, e := range tables {
		p := append(append([]string{}, path...), tstr(plainKey(e.K)))
		switch v := e.V.(type) {
		case Map:
			b.WriteString("\n[" + strings.Join(p, ".") + "]\n")
			writeTOMLTable(b, v, p)
		case List:
			for _, x := range v {
				b.WriteString("\n[[" + strings.Join(p, ".") + "]]\n")
				writeTOMLTable(b, x.(Map), p)
			}
		}
	}
}

// SortedKeys is a helper for deterministic iteration over Go maps.
func SortedKeys(m map[string]string) []string {
	ks := make([]string, 0, len(m))
	for k := range m {
		ks = append(ks, k)
	}
	sort.Strings(ks)
	return ks
}
