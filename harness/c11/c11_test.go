// Package c11 decides C11: a task's output is captured exactly and handed to the stages that depend on it.
package c11

import (
	"encoding/json"
	"fmt"
	"io"
	"os"
	"path/filepath"
	"strings"
	"testing"

	"github.com/sirupsen/logrus"
	"github.com/taskctl/taskctl/pkg/runner"
	"github.com/taskctl/taskctl/pkg/scheduler"
	"github.com/taskctl/taskctl/pkg/task"
	"github.com/taskctl/taskctl/pkg/variables"
	"pgregory.net/rapid"

	"verif/harness/cli"
	"verif/harness/drv"
	"verif/harness/gen"
	"verif/harness/hook"
)

func TestMain(m *testing.M) {
	logrus.SetOutput(io.Discard)
	drv.Main(m)
}

// Case: one producer at node Prod of a DAG; every other node tries to read the producer's variable.
type Case struct {
	Name      string   `json:"name"`
	ExportAs  string   `json:"export_as,omitempty"`
	Payloads  []string `json:"payloads"` // one per command (cat of a file holding it)
	NVar      int      `json:"nvar"`
	Allow     bool     `json:"allow"` // allow_failure with a failing command in the middle
	N         int      `json:"n"`     // stages
	Edges     [][2]int `json:"edges"` // [i,j]: j depends on i (i<j in a hidden order; names are s<i>)
	Prod      int      `json:"prod"`
	Chain     []string `json:"chain"`                // tokens for the .Output chain task
	ChainFail []bool   `json:"chain_fail,omitempty"` // command i of the chain fails after printing (the chain task allows failures)
	Format    string   `json:"format,omitempty"`     // output format of the run: raw (default) | prefixed | cockpit
	CLI       bool     `json:"cli,omitempty"`
	// Ctx: producer and consumers run in a named execution context (with an env entry of its own).
	// Second: a second producer that writes this text to the same variable (same exportAs, or a task name that maps
	// to the same <NAME>_OUTPUT) runs after the first pipeline on the same runner; its own dependant must read it.
	Ctx    bool   `json:"ctx,omitempty"`
	Second string `json:"second,omitempty"`
	// Noise: the producer has a condition, a before and an after hook that print to standard output as well; the
	// captured output is what the task's commands wrote
	Noise bool `json:"noise,omitempty"`
}

func (c Case) canon() string { b, _ := json.Marshal(c); return string(b) }

// envName is the statement's rule, computed independently of taskctl.
func envName(name string) string {
	var b strings.Builder
	for _, r := range []byte(strings.ToUpper(name) + "_OUTPUT") {
		if (r >= 'A' && r <= 'Z') || (r >= 'a' && r <= 'z') || (r >= '0' && r <= '9') || r == '_' {
			b.WriteByte(r)
		} else {
			b.WriteByte('_')
		}
	}
	return b.String()
}

func (c Case) want() string {
	reps := 1
	if c.NVar > 0 {
		reps = c.NVar
	}
	var b strings.Builder
	for v := 0; v < reps; v++ {
		for _, p := range c.Payloads {
			b.WriteString(p)
		}
	}
	return b.String()
}

func (c Case) varName() string {
	if c.ExportAs != "" {
		return c.ExportAs
	}
	return envName(c.Name)
}

// secondName is the name of the second producer: with exportAs any other name will do; without, a different name
// that maps to the same environment variable (a letter in the other case, or another character outside the set
// that is kept); "" if the name allows neither (API runs may use the very same name).
func (c Case) secondName() string {
	if c.ExportAs != "" {
		return "second-producer"
	}
	b := []byte(c.Name)
	for i, ch := range b {
		switch {
		case ch >= 'a' && ch <= 'z':
			b[i] = ch - 32
			return string(b)
		case ch >= 'A' && ch <= 'Z':
			b[i] = ch + 32
			return string(b)
		}
	}
	for i, ch := range b {
		if !(ch >= '0' && ch <= '9') && ch != '_' && i > 0 {
			if ch == '+' {
				b[i] = '='
			} else {
				b[i] = '+'
			}
			return string(b)
		}
	}
	return ""
}

func (c Case) checkSecond(dir string) error {
	if c.Second == "" {
		return nil
	}
	b, err := os.ReadFile(filepath.Join(dir, "out-second"))
	if err != nil {
		return fmt.Errorf("the dependant of the second producer did not run: %v", err)
	}
	if string(b) != c.Second+"\n" {
		return fmt.Errorf("the dependant of the second producer read $%s = %q; the second producer wrote %q (the first one had written %q)", c.varName(), trunc(string(b)), c.Second, trunc(c.want()))
	}
	return nil
}

func (c Case) dependants() map[int]bool {
	dep := map[int]bool{}
	changed := true
	for changed {
		changed = false
		for _, e := range c.Edges {
			if (e[0] == c.Prod || dep[e[0]]) && !dep[e[1]] {
				dep[e[1]] = true
				changed = true
			}
		}
	}
	return dep
}

func (c Case) prodCommands(dir string) []string {
	var cmds []string
	for i, p := range c.Payloads {
		f := filepath.Join(dir, fmt.Sprint("payload", i))
		os.WriteFile(f, []byte(p), 0o644)
		cmds = append(cmds, "cat "+f)
		if c.Allow && i == 0 {
			cmds = append(cmds, "exit 3")
		}
	}
	return cmds
}

func consumerCmd(vn, out string) string {
	return fmt.Sprintf("printenv '%s' > %s; true", vn, out)
}

func (c Case) chainCommands(dir string) []string {
	var cmds []string
	for i, tok := range c.Chain {
		cmd := fmt.Sprintf("printf '%%s' '{{ .Output }}' > %s; printf '%%s' '%s'", filepath.Join(dir, fmt.Sprint("chain", i)), tok)
		if i < len(c.ChainFail) && c.ChainFail[i] {
			cmd += "; exit 3" // an allowed failure: the next command still reads this command's output
		}
		cmds = append(cmds, cmd)
	}
	return cmds
}

func (c Case) checkFiles(dir string, output *string) error {
	want := c.want()
	if output != nil && *output != want {
		return fmt.Errorf("Task.Output(): got %d bytes %q, the commands wrote %d bytes %q", len(*output), trunc(*output), len(want), trunc(want))
	}
	for i := range c.dependants() {
		b, err := os.ReadFile(filepath.Join(dir, fmt.Sprint("out", i)))
		if err != nil {
			return fmt.Errorf("dependant stage s%d did not run: %v", i, err)
		}
		if string(b) != want+"\n" {
			return fmt.Errorf("dependant stage s%d read $%s = %q (%d bytes), the producer %q wrote %q (%d bytes)", i, c.varName(), trunc(string(b)), len(b), c.Name, trunc(want), len(want))
		}
	}
	for i := range c.Chain {
		b, _ := os.ReadFile(filepath.Join(dir, fmt.Sprint("chain", i)))
		prev := ""
		if i > 0 {
			prev = c.Chain[i-1]
		}
		if string(b) != prev {
			return fmt.Errorf("command %d of the chain task read .Output = %q, the previous command wrote %q", i, b, prev)
		}
	}
	return nil
}

func runAPI(c Case, dir string) error {
	prod := task.NewTask()
	prod.Name, prod.ExportAs = c.Name, c.ExportAs
	prod.Commands = c.prodCommands(dir)
	prod.AllowFailure = c.Allow
	if c.Noise {
		prod.Condition = "printf 'NOISE-CONDITION\\n'; true"
		prod.Before = []string{"printf 'NOISE-BEFORE\\n'"}
		prod.After = []string{"printf 'NOISE-AFTER\\n'"}
	}
	for v := 0; v < c.NVar; v++ {
		prod.Variations = append(prod.Variations, map[string]string{"V": fmt.Sprint(v)})
	}
	deps := map[int][]string{}
	for _, e := range c.Edges {
		deps[e[1]] = append(deps[e[1]], fmt.Sprint("s", e[0]))
	}
	var stages []*scheduler.Stage
	for i := c.N - 1; i >= 0; i-- { // declared dependants-first
		var tk *task.Task
		if i == c.Prod {
			tk = prod
		} else {
			tk = task.FromCommands(consumerCmd(c.varName(), filepath.Join(dir, fmt.Sprint("out", i))))
			tk.Name = fmt.Sprint("consumer", i)
		}
		stages = append(stages, &scheduler.Stage{Name: fmt.Sprint("s", i), Task: tk, DependsOn: deps[i]})
	}
	g, err := scheduler.NewExecutionGraph(stages...)
	if err != nil {
		return fmt.Errorf("graph: %v", err)
	}
	var ropts []runner.Opts
	if c.Ctx {
		ropts = append(ropts, runner.WithContexts(map[string]*runner.ExecutionContext{"cx": runner.NewExecutionContext(nil, "", variables.FromMap(map[string]string{"CX": "1"}), nil, nil, nil, nil)}))
		for _, st := range stages {
			st.Task.Context = "cx"
		}
	}
	r, _ := runner.NewTaskRunner(ropts...)
	r.Stdout, r.Stderr = io.Discard, io.Discard
	if c.Format != "" {
		r.OutputFormat = c.Format
	}
	s := scheduler.NewScheduler(r)
	hook.SetPause(s, 2_000_000)
	if err := s.Schedule(g); err != nil {
		return fmt.Errorf("schedule: %v", err)
	}
	if c.Second != "" {
		f := filepath.Join(dir, "payload-second")
		os.WriteFile(f, []byte(c.Second), 0o644)
		p2 := task.FromCommands("cat " + f)
		p2.Name, p2.ExportAs = c.Name, c.ExportAs
		c2 := task.FromCommands(consumerCmd(c.varName(), filepath.Join(dir, "out-second")))
		c2.Name = "consumer-second"
		if c.Ctx {
			p2.Context, c2.Context = "cx", "cx"
		}
		g2, err := scheduler.NewExecutionGraph(&scheduler.Stage{Name: "c2", Task: c2, DependsOn: []string{"p2"}}, &scheduler.Stage{Name: "p2", Task: p2})
		if err != nil {
			return fmt.Errorf("graph 2: %v", err)
		}
		s2 := scheduler.NewScheduler(r)
		hook.SetPause(s2, 2_000_000)
		if err := s2.Schedule(g2); err != nil {
			return fmt.Errorf("schedule 2: %v", err)
		}
	}
	if len(c.Chain) > 0 {
		ch := task.FromCommands(c.chainCommands(dir)...)
		ch.Name = "chain"
		ch.AllowFailure = true
		if err := r.Run(ch); err != nil {
			return fmt.Errorf("chain task: %v", err)
		}
	}
	out := prod.Output()
	if err := c.checkFiles(dir, &out); err != nil {
		return err
	}
	return c.checkSecond(dir)
}

func runCLI(c Case, dir string) error {
	os.MkdirAll(filepath.Join(dir, "home"), 0o755)
	var cmds gen.List
	for _, x := range c.prodCommands(dir) {
		cmds = append(cmds, x)
	}
	prod := gen.Map{{K: "command", V: cmds}}
	if c.ExportAs != "" {
		prod = prod.Set("exportAs", c.ExportAs)
	}
	if c.Allow {
		prod = prod.Set("allow_failure", true)
	}
	if c.Noise {
		prod = prod.Set("condition", "printf 'NOISE-CONDITION\\n'; true").Set("before", gen.List{"printf 'NOISE-BEFORE\\n'"}).Set("after", gen.List{"printf 'NOISE-AFTER\\n'"})
	}
	if c.NVar > 0 {
		var l gen.List
		for v := 0; v < c.NVar; v++ {
			l = append(l, gen.Map{{K: "V", V: fmt.Sprint(v)}})
		}
		prod = prod.Set("variations", l)
	}
	tasks := gen.Map{{K: c.Name, V: prod}}
	deps := map[int]gen.List{}
	for _, e := range c.Edges {
		deps[e[1]] = append(deps[e[1]], fmt.Sprint("s", e[0]))
	}
	var stages gen.List
	for i := c.N - 1; i >= 0; i-- {
		st := gen.Map{{K: "name", V: fmt.Sprint("s", i)}}
		if i == c.Prod {
			st = st.Set("task", c.Name)
		} else {
			tn := fmt.Sprint("consumer-task-", i)
			tasks = tasks.Set(tn, gen.Map{{K: "command", V: gen.List{consumerCmd(c.varName(), filepath.Join(dir, fmt.Sprint("out", i)))}}})
			st = st.Set("task", tn)
		}
		if len(deps[i]) > 0 {
			st = st.Set("depends_on", deps[i])
		}
		stages = append(stages, st)
	}
	if len(c.Chain) > 0 {
		var l gen.List
		for _, x := range c.chainCommands(dir) {
			l = append(l, x)
		}
		tasks = tasks.Set("chain-task", gen.Map{{K: "command", V: l}, {K: "allow_failure", V: true}})
	}
	pipes := gen.Map{{K: "pp", V: stages}}
	second := c.Second != "" && c.secondName() != ""
	if second {
		f := filepath.Join(dir, "payload-second")
		os.WriteFile(f, []byte(c.Second), 0o644)
		p2 := gen.Map{{K: "command", V: gen.List{"cat " + f}}}
		if c.ExportAs != "" {
			p2 = p2.Set("exportAs", c.ExportAs)
		}
		tasks = tasks.Set(c.secondName(), p2)
		tasks = tasks.Set("consumer-second", gen.Map{{K: "command", V: gen.List{consumerCmd(c.varName(), filepath.Join(dir, "out-second"))}}})
		pipes = pipes.Set("pp2", gen.List{gen.Map{{K: "name", V: "c2"}, {K: "task", V: "consumer-second"}, {K: "depends_on", V: gen.List{"p2"}}},
			gen.Map{{K: "name", V: "p2"}, {K: "task", V: c.secondName()}}})
	}
	cfg := gen.Map{{K: "tasks", V: tasks}, {K: "pipelines", V: pipes}}
	if c.Ctx {
		cfg = cfg.Set("contexts", gen.Map{{K: "cx", V: gen.Map{{K: "env", V: gen.Map{{K: "CX", V: "1"}}}}}})
		tm := gen.Map{}
		for _, kv := range tasks {
			tm = tm.Set(kv.K, kv.V.(gen.Map).Set("context", "cx"))
		}
		cfg = cfg.Set("tasks", tm)
	}
	os.WriteFile(filepath.Join(dir, "t.yaml"), []byte(gen.YAML(cfg)), 0o644)
	env := cli.Env{Bin: drv.Bin(), Dir: dir, Home: filepath.Join(dir, "home")}
	format := c.Format
	if format == "" {
		format = "raw"
	}
	args := []string{"-c", "t.yaml", "--output", format, "pp"}
	if second {
		args = append(args, "pp2")
	}
	if len(c.Chain) > 0 {
		args = append(args, "chain-task")
	}
	r := env.Run(args...)
	if r.Exit != 0 || r.Crashed() {
		return fmt.Errorf("taskctl %v: exit %d timedOut=%v stderr %q", args, r.Exit, r.TimedOut, trunc(r.Stderr))
	}
	if err := c.checkFiles(dir, nil); err != nil {
		return err
	}
	if !second {
		return nil
	}
	return c.checkSecond(dir)
}

func trunc(s string) string {
	if len(s) > 160 {
		return s[:80] + "…" + s[len(s)-80:]
	}
	return s
}

// ---- generator

func genPayload(rt *rapid.T, budget int) string {
	switch rapid.IntRange(0, 7).Draw(rt, "payload-kind") {
	case 0:
		return ""
	case 6:
		// coloured output, the usual content of build and test tools
		return rapid.SampledFrom([]string{"\x1b[32mok\x1b[0m\n", "\x1b[1;31mFAIL\x1b[0m x\nsecond \x1b[2Kline\n", "plain \x1b[38;5;196mred\x1b[0m tail", "\x1b[0m"}).Draw(rt, "coloured") +
			rapid.StringMatching(`[a-z ]{0,12}\n?`).Draw(rt, "after-colour")
	case 7:
		// text that looks like the template syntax taskctl uses for commands and variables
		return rapid.SampledFrom([]string{"{{", "x{{y\n", "{{ .Root }}\n", "}}", "{{ nope }}", "{{/*", "a {{ .Output }} b\n", "${HOME} $(id) `id`\n", "%s %d %%\n"}).Draw(rt, "template-like")
	case 1:
		if budget < 4096 {
			return "small\n"
		}
		n := rapid.IntRange(4096, budget).Draw(rt, "big")
		b := make([]byte, n)
		for i := range b {
			b[i] = byte('a' + i%23)
			if i%71 == 70 {
				b[i] = '\n'
			}
		}
		return string(b)
	case 2:
		return rapid.StringMatching(`[a-zäöüß€日本 \t]{0,20}(\n[a-z ]{0,10}){0,4}\n{0,3}`).Draw(rt, "multi")
	case 3:
		return rapid.StringMatching(`[a-z]{1,8}`).Draw(rt, "no-newline")
	default:
		return rapid.StringMatching(`[ -~]{0,40}\n?`).Draw(rt, "line")
	}
}

func genCase(rt *rapid.T, cliMode bool) Case {
	c := Case{CLI: cliMode}
	c.Name = rapid.StringMatching(`[ -~]{1,16}`).Draw(rt, "name")
	if cliMode {
		// a CLI target is one argv word and a YAML key; '.' and '$' lead mergo / the shell elsewhere, keep
		// the full printable range but no leading '-' (it would be parsed as a flag)
		c.Name = strings.NewReplacer("{", "(", "}", ")").Replace(strings.TrimLeft(c.Name, "-")) // loaded task names are rendered as templates
		if c.Name == "" {
			c.Name = "p"
		}
	}
	if rapid.IntRange(0, 2).Draw(rt, "export") == 0 {
		c.ExportAs = rapid.StringMatching(`[A-Za-z_][A-Za-z0-9_]{0,8}`).Draw(rt, "exportAs")
	}
	ncmd := rapid.IntRange(1, 3).Draw(rt, "ncmd")
	c.NVar = rapid.IntRange(0, 2).Draw(rt, "nvar")
	reps := 1
	if c.NVar > 0 {
		reps = c.NVar
	}
	budget := 65536 / reps
	for i := 0; i < ncmd; i++ {
		p := genPayload(rt, budget)
		budget -= len(p)
		c.Payloads = append(c.Payloads, p)
	}
	c.Allow = rapid.IntRange(0, 3).Draw(rt, "allow") == 0
	// the captured output must not depend on how the output is shown (the cockpit keeps process-global
	// state, so in-process runs use raw and prefixed only)
	if cliMode {
		c.Format = rapid.SampledFrom([]string{"raw", "prefixed", "cockpit"}).Draw(rt, "format")
	} else {
		c.Format = rapid.SampledFrom([]string{"raw", "prefixed"}).Draw(rt, "format")
	}
	c.N = rapid.IntRange(2, 6).Draw(rt, "stages")
	for j := 1; j < c.N; j++ {
		for i := 0; i < j; i++ {
			if rapid.IntRange(0, 2).Draw(rt, "edge") == 0 {
				c.Edges = append(c.Edges, [2]int{i, j})
			}
		}
	}
	c.Prod = rapid.IntRange(0, c.N-2).Draw(rt, "producer")
	if len(c.dependants()) == 0 {
		c.Edges = append(c.Edges, [2]int{c.Prod, c.N - 1})
	}
	c.Noise = rapid.IntRange(0, 2).Draw(rt, "printing-hooks") == 0
	c.Ctx = rapid.IntRange(0, 2).Draw(rt, "named-context") == 0
	if rapid.IntRange(0, 2).Draw(rt, "second-producer") == 0 {
		c.Second = rapid.StringMatching(`[a-z0-9 ]{1,12}`).Draw(rt, "second-text")
	}
	nchain := rapid.IntRange(0, 3).Draw(rt, "chain")
	for i := 0; i < nchain; i++ {
		c.Chain = append(c.Chain, rapid.StringMatching(`[A-Za-z0-9_./-]{1,20}`).Draw(rt, "token"))
		c.ChainFail = append(c.ChainFail, rapid.IntRange(0, 3).Draw(rt, "chain-fail") == 0)
	}
	return c
}

func record(c Case) {
	want := c.want()
	jobs := len(c.Payloads)
	if c.NVar > 0 {
		jobs *= c.NVar
	}
	cls := []string{fmt.Sprintf("jobs=%d", jobs), fmt.Sprintf("dependants=%d", len(c.dependants())), "format=" + c.Format}
	if strings.Contains(want, "\x1b[") {
		cls = append(cls, "output-with-escape-sequence")
	}
	nonIdent := envName(c.Name) != strings.ToUpper(c.Name)+"_OUTPUT"
	if nonIdent {
		cls = append(cls, "name-with-non-identifier-byte")
	}
	if c.ExportAs != "" {
		cls = append(cls, "exportAs")
	}
	if len(want) >= 4096 {
		cls = append(cls, "output>=4KiB")
	}
	if want == "" {
		cls = append(cls, "empty-output")
	}
	transitive := false
	direct := map[int]bool{}
	for _, e := range c.Edges {
		if e[0] == c.Prod {
			direct[e[1]] = true
		}
	}
	for d := range c.dependants() {
		if !direct[d] {
			transitive = true
		}
	}
	if transitive {
		cls = append(cls, "transitive-consumer")
	}
	if c.Noise {
		cls = append(cls, "producer-with-printing-condition-and-hooks")
	}
	if c.Ctx {
		cls = append(cls, "named-context")
	}
	if c.Second != "" {
		cls = append(cls, "second-producer-of-the-same-variable")
	}
	drv.Eval(cls...)
	if nonIdent || len(want) >= 4096 || strings.Count(want, "\n") >= 2 || jobs >= 2 {
		drv.NonTrivial(c.canon())
	}
}

func sample(c Case) any {
	d := c
	for i, p := range d.Payloads {
		if len(p) > 60 {
			d.Payloads[i] = fmt.Sprintf("%s…(%d bytes)", p[:40], len(p))
		}
	}
	return d
}

func TestAPI(t *testing.T) {
	root := t.TempDir()
	k := 0
	rapid.Check(t, func(rt *rapid.T) {
		c := genCase(rt, false)
		k++
		dir := filepath.Join(root, fmt.Sprint("c", k))
		os.MkdirAll(dir, 0o755)
		defer os.RemoveAll(dir)
		record(c)
		cp := c
		cp.Payloads = append([]string{}, c.Payloads...)
		drv.Sample(sample(cp))
		if err := runAPI(c, dir); err != nil {
			drv.Fail(rt, "api", "", c, "%v", err)
		}
	})
}

func TestCLI(t *testing.T) {
	root := t.TempDir()
	k := 0
	rapid.Check(t, func(rt *rapid.T) {
		c := genCase(rt, true)
		k++
		dir := filepath.Join(root, fmt.Sprint("c", k))
		os.MkdirAll(dir, 0o755)
		defer os.RemoveAll(dir)
		record(c)
		if err := runCLI(c, dir); err != nil {
			drv.Fail(rt, "cli", "", c, "%v", err)
		}
	})
}

func TestReplay(t *testing.T) {
	_, raw, ok := drv.ReplayFile()
	if !ok {
		t.Skip("no replay requested")
	}
	var c Case
	if err := json.Unmarshal(raw, &c); err != nil {
		t.Fatal(err)
	}
	var err error
	if c.CLI {
		err = runCLI(c, t.TempDir())
	} else {
		err = runAPI(c, t.TempDir())
	}
	if err != nil {
		drv.Fail(t, "replay", "", c, "%v", err)
	}
}
