// Package c17 decides C17: imports load every reachable file once; cycles terminate; broken imports fail;
// global definitions are available next to the project's.
package c17

import (
	"encoding/json"
	"fmt"
	"os"
	"path/filepath"
	"sort"
	"strings"
	"testing"
	"time"

	"pgregory.net/rapid"

	"verif/harness/cli"
	"verif/harness/drv"
	"verif/harness/gen"
)

func TestMain(m *testing.M) { drv.Main(m) }

// File i is written to Dir/f<i>.<Ext>; Imps lists the files it imports, by file or (ViaDir) by
// naming the directory the target lives in.
type File struct {
	Dir    string `json:"dir"`
	Ext    string `json:"ext"`
	Imps   []int  `json:"imports,omitempty"`
	ViaDir []bool `json:"via_dir,omitempty"`
	// Odd: the file name holds characters that mean something in glob patterns (1: [x], 2: *, 3: ?): they are ordinary
	// characters of a file name, an import entry names that file
	Odd int `json:"odd_name,omitempty"`
}

var oddNames = []string{"f%d.%s", "f%d[x].%s", "f%d*.%s", "f%d?.%s"}

// Case: an import structure rooted at file 0, optionally with one file missing or unparsable.
type Case struct {
	Files      []File `json:"files"`
	Broken     int    `json:"broken"` // -1 none
	BrokenKind string `json:"broken_kind,omitempty"`
}

func (c Case) canon() string { b, _ := json.Marshal(c); return string(b) }

func (c Case) path(i int) string {
	return filepath.Join(c.Files[i].Dir, fmt.Sprintf(oddNames[c.Files[i].Odd%len(oddNames)], i, c.Files[i].Ext))
}

// importsOf returns the files an import entry of file i pulls in: the file itself, or every *.yaml
// file of its directory (directory imports load the .yaml files of that directory, not recursively).
func (c Case) importsOf(i, k int) []int {
	j := c.Files[i].Imps[k]
	if k < len(c.Files[i].ViaDir) && c.Files[i].ViaDir[k] {
		var out []int
		for x, f := range c.Files {
			if f.Dir == c.Files[j].Dir && f.Ext == "yaml" && !(x == c.Broken && c.BrokenKind == "missing") {
				out = append(out, x) // a file that does not exist is simply not part of the directory
			}
		}
		return out
	}
	return []int{j}
}

// reach computes the import closure; a broken file is reached but not followed.
func (c Case) reach() map[int]bool {
	r := map[int]bool{}
	var dfs func(i int)
	dfs = func(i int) {
		if r[i] {
			return
		}
		r[i] = true
		if i == c.Broken {
			return
		}
		for k := range c.Files[i].Imps {
			for _, j := range c.importsOf(i, k) {
				dfs(j)
			}
		}
	}
	dfs(0)
	return r
}

func emit(ext string, m gen.Map) string {
	switch ext {
	case "json":
		return gen.JSON(m)
	case "toml":
		return gen.TOML(m)
	}
	return gen.YAML(m)
}

func run(c Case, dir string) error {
	os.MkdirAll(filepath.Join(dir, "home"), 0o755)
	for i, f := range c.Files {
		os.MkdirAll(filepath.Join(dir, f.Dir), 0o755)
		m := gen.Map{}
		if len(f.Imps) > 0 {
			var l gen.List
			for k, j := range f.Imps {
				target := filepath.Join(dir, c.path(j))
				if k < len(f.ViaDir) && f.ViaDir[k] {
					target = filepath.Join(dir, c.Files[j].Dir)
				}
				rel, _ := filepath.Rel(filepath.Join(dir, f.Dir), target)
				l = append(l, rel)
			}
			m = m.Set("import", l)
		}
		tn := fmt.Sprintf("t%d", i)
		m = m.Set("tasks", gen.Map{{K: tn, V: gen.Map{{K: "command", V: gen.List{"true", "true"}}}}})
		m = m.Set("pipelines", gen.Map{{K: fmt.Sprintf("p%d", i), V: gen.List{
			gen.Map{{K: "name", V: "a"}, {K: "task", V: tn}},
			gen.Map{{K: "name", V: "b"}, {K: "task", V: tn}, {K: "depends_on", V: gen.List{"a"}}}}}})
		txt := emit(f.Ext, m)
		if i == c.Broken {
			if c.BrokenKind == "missing" {
				continue
			}
			if c.BrokenKind == "dangling" {
				// a symbolic link whose target does not exist: listed by its directory, but it cannot be read
				os.Symlink("no-such-target-"+filepath.Base(c.path(i)), filepath.Join(dir, c.path(i)))
				continue
			}
			txt = "{{{ not [ valid"
		}
		os.WriteFile(filepath.Join(dir, c.path(i)), []byte(txt), 0o644)
	}
	env := cli.Env{Bin: drv.Bin(), Dir: dir, Home: filepath.Join(dir, "home"), Timeout: 10 * time.Second}
	r := env.Run("-c", c.path(0), "list", "tasks")
	if r.TimedOut {
		env.Timeout = 40 * time.Second
		r = env.Run("-c", c.path(0), "list", "tasks")
	}
	if r.Crashed() {
		return fmt.Errorf("loading did not end normally: exit %d timedOut=%v stderr %q", r.Exit, r.TimedOut, clip(r.Stderr))
	}
	reach := c.reach()
	if c.Broken >= 0 && reach[c.Broken] {
		if r.Exit == 0 {
			return fmt.Errorf("file %s in the import closure is %s but loading succeeded with a partial configuration: tasks %v", c.path(c.Broken), c.BrokenKind, strings.Fields(r.Stdout))
		}
		if strings.TrimSpace(r.Stderr) == "" {
			return fmt.Errorf("loading failed without an error message")
		}
		return nil
	}
	if r.Exit != 0 {
		return fmt.Errorf("every reachable file is intact but loading failed: %q", clip(r.Stderr))
	}
	got := strings.Fields(r.Stdout)
	sort.Strings(got)
	var want []string
	for i := range c.Files {
		if reach[i] {
			want = append(want, fmt.Sprintf("t%d", i))
		}
	}
	sort.Strings(want)
	if strings.Join(got, ",") != strings.Join(want, ",") {
		return fmt.Errorf("tasks loaded: %v, reachable through imports: %v", got, want)
	}
	pl := env.Run("-c", c.path(0), "list", "pipelines")
	gp := strings.Fields(pl.Stdout)
	if pl.Exit != 0 || len(gp) != len(want) {
		return fmt.Errorf("pipelines loaded: %v, want one per reachable file (%d)", gp, len(want))
	}
	for i := range c.Files {
		if !reach[i] {
			continue
		}
		s := env.Run("-c", c.path(0), "show", fmt.Sprintf("t%d", i))
		if n := strings.Count(s.Stdout, "- true"); s.Exit != 0 || n != 2 {
			return fmt.Errorf("task t%d has %d commands, defined with 2: the file was merged %d time(s); show output %q", i, n, n/2, s.Stdout)
		}
	}
	// one pipeline drawn by position: two stages, one edge
	g := env.Run("-c", c.path(0), "graph", "p"+strings.TrimPrefix(want[len(want)/2], "t"))
	if g.Exit != 0 || strings.Count(g.Stdout, "->") != 1 {
		return fmt.Errorf("graph of a loaded pipeline: exit %d, output %q, want exactly one edge (stages defined once)", g.Exit, g.Stdout)
	}
	return nil
}

func clip(s string) string {
	if len(s) > 700 {
		return s[:700] + "…"
	}
	return s
}

func hasCycle(c Case) bool {
	color := map[int]int{}
	var dfs func(i int) bool
	dfs = func(i int) bool {
		color[i] = 1
		for k := range c.Files[i].Imps {
			for _, j := range c.importsOf(i, k) {
				if color[j] == 1 || (color[j] == 0 && dfs(j)) {
					return true
				}
			}
		}
		color[i] = 2
		return false
	}
	return dfs(0)
}

func record(c Case) {
	reach := c.reach()
	cls := []string{fmt.Sprintf("files=%d", len(c.Files)), fmt.Sprintf("reachable=%d", len(reach))}
	nt := false
	if hasCycle(c) {
		cls = append(cls, "import-cycle")
		nt = true
	}
	indeg := map[int]int{}
	dirImp, mixed := false, false
	for i, f := range c.Files {
		if !reach[i] {
			continue
		}
		if f.Ext != c.Files[0].Ext {
			mixed = true
		}
		for k := range f.Imps {
			if k < len(f.ViaDir) && f.ViaDir[k] {
				dirImp = true
			}
			for _, j := range c.importsOf(i, k) {
				indeg[j]++
			}
		}
	}
	for _, d := range indeg {
		if d >= 2 {
			cls = append(cls, "diamond-or-repeated-import")
			nt = true
			break
		}
	}
	if dirImp {
		cls = append(cls, "directory-import")
		nt = true
	}
	if mixed {
		cls = append(cls, "mixed-formats")
	}
	if c.Broken >= 0 {
		if reach[c.Broken] {
			cls = append(cls, "broken-in-closure="+c.BrokenKind)
			nt = true
		} else {
			cls = append(cls, "broken-outside-closure")
		}
	}
	drv.Eval(cls...)
	if nt {
		drv.NonTrivial(c.canon())
	}
}

var dirs = []string{".", "sub", "sub/deep", "other"}

func genCase(rt *rapid.T) Case {
	nf := rapid.IntRange(1, 6).Draw(rt, "files")
	mixed := rapid.Bool().Draw(rt, "mixed-formats")
	c := Case{Files: make([]File, nf), Broken: -1}
	for i := range c.Files {
		c.Files[i].Dir = rapid.SampledFrom(dirs).Draw(rt, "dir")
		c.Files[i].Ext = "yaml"
		if mixed {
			c.Files[i].Ext = rapid.SampledFrom([]string{"yaml", "yaml", "json", "toml", "yml"}).Draw(rt, "ext")
		}
		if i > 0 && rapid.IntRange(0, 5).Draw(rt, "odd-file-name") == 0 {
			c.Files[i].Odd = rapid.IntRange(1, 3).Draw(rt, "odd-kind")
		}
	}
	c.Files[0].Dir = "."
	density := rapid.IntRange(1, 3).Draw(rt, "density")
	for i := range c.Files {
		for j := 0; j < nf; j++ {
			if rapid.IntRange(0, 5).Draw(rt, "edge") < density {
				viaDir := rapid.IntRange(0, 4).Draw(rt, "via-dir") == 0 && c.Files[j].Ext == "yaml" && c.Files[j].Dir != "."
				c.Files[i].Imps = append(c.Files[i].Imps, j)
				c.Files[i].ViaDir = append(c.Files[i].ViaDir, viaDir)
				if rapid.IntRange(0, 5).Draw(rt, "repeat") == 0 {
					c.Files[i].Imps = append(c.Files[i].Imps, j)
					c.Files[i].ViaDir = append(c.Files[i].ViaDir, viaDir)
				}
			}
		}
	}
	if nf > 1 && rapid.IntRange(0, 2).Draw(rt, "break") == 0 {
		c.Broken = rapid.IntRange(1, nf-1).Draw(rt, "broken")
		c.BrokenKind = rapid.SampledFrom([]string{"missing", "unparsable", "dangling"}).Draw(rt, "broken-kind")
	}
	return c
}

func TestRandom(t *testing.T) {
	root := t.TempDir()
	k := 0
	rapid.Check(t, func(rt *rapid.T) {
		c := genCase(rt)
		k++
		dir := filepath.Join(root, fmt.Sprint("c", k))
		defer os.RemoveAll(dir)
		record(c)
		drv.Sample(c)
		if err := run(c, dir); err != nil {
			drv.Fail(rt, "random", "", c, "%v; case %s", err, c.canon())
		}
	})
}

// TestExhaustive: every edge set (self-loops and cycles included) on 1..3 YAML files in nested
// directories; thorough also breaks one file (missing / unparsable) at every position.
func TestExhaustive(t *testing.T) {
	root := t.TempDir()
	idx, nsh := drv.Shard()
	k := 0
	place := []string{".", "sub", "sub/deep"}
	for n := 1; n <= 3; n++ {
		for mask := 0; mask < 1<<(n*n); mask++ {
			var variants []Case
			base := Case{Files: make([]File, n), Broken: -1}
			for i := 0; i < n; i++ {
				base.Files[i] = File{Dir: place[i], Ext: "yaml"}
				for j := 0; j < n; j++ {
					if mask&(1<<(i*n+j)) != 0 {
						base.Files[i].Imps = append(base.Files[i].Imps, j)
						base.Files[i].ViaDir = append(base.Files[i].ViaDir, false)
					}
				}
			}
			variants = append(variants, base)
			if drv.Thorough() || mask%7 == 0 {
				for b := 1; b < n; b++ {
					for _, kind := range []string{"missing", "unparsable", "dangling"} {
						v := base
						v.Broken, v.BrokenKind = b, kind
						variants = append(variants, v)
					}
				}
			}
			for _, c := range variants {
				k++
				if k%nsh != idx {
					continue
				}
				dir := filepath.Join(root, fmt.Sprint("e", k))
				record(c)
				if k%97 == 0 {
					drv.Sample(c)
				}
				err := run(c, dir)
				os.RemoveAll(dir)
				if err != nil {
					drv.Fail(t, "exhaustive", "", c, "%v; case %s", err, c.canon())
				}
			}
		}
	}
	drv.SetExhaustive()
}

// ---- global configuration

// SplitCase: bit i of Mask set = definition i lives in ~/.taskctl/config.yaml, else in the project file.
// Definitions: tasks ga, gb; contexts cxa, cxb; variables va, vb.
type SplitCase struct {
	Mask   int    `json:"mask"`
	Format string `json:"format"` // of the project file
	// GlobalImport: 0 the global file holds its definitions itself; 1 it imports them from a second file
	// next to it; 2 it imports a file that does not exist (loading must fail)
	GlobalImport int `json:"global_import,omitempty"`
}

func runSplit(c SplitCase, dir string) error {
	home := filepath.Join(dir, "home")
	os.MkdirAll(filepath.Join(home, ".taskctl"), 0o755)
	global, project := gen.Map{}, gen.Map{}
	put := func(bit int, section, name string, v gen.Node) {
		dst := &project
		if c.Mask&(1<<bit) != 0 {
			dst = &global
		}
		sec, _ := dst.Get(section)
		m, _ := sec.(gen.Map)
		*dst = dst.Set(section, m.Set(name, v))
	}
	put(0, "tasks", "ga", gen.Map{{K: "command", V: gen.List{"true"}}})
	put(1, "tasks", "gb", gen.Map{{K: "command", V: gen.List{"true"}}})
	put(2, "contexts", "cxa", gen.Map{{K: "env", V: gen.Map{{K: "A", V: "1"}}}})
	put(3, "contexts", "cxb", gen.Map{{K: "env", V: gen.Map{{K: "B", V: "1"}}}})
	put(4, "variables", "va", "value-a")
	put(5, "variables", "vb", "value-b")
	pt, _ := project.Get("tasks")
	ptm, _ := pt.(gen.Map)
	project = project.Set("tasks", ptm.Set("showvars", gen.Map{{K: "command", V: gen.List{`printf 'VARS %s %s\n' '{{ .va }}' '{{ .vb }}'`}}}))
	switch c.GlobalImport {
	case 1:
		os.WriteFile(filepath.Join(home, ".taskctl", "extra.yaml"), []byte(gen.YAML(global)), 0o644)
		global = gen.Map{{K: "import", V: gen.List{"extra.yaml"}}}
	case 2:
		global = append(gen.Map{{K: "import", V: gen.List{"missing.yaml"}}}, global...)
	}
	os.WriteFile(filepath.Join(home, ".taskctl", "config.yaml"), []byte(gen.YAML(global)), 0o644)
	file := "proj." + c.Format
	os.WriteFile(filepath.Join(dir, file), []byte(emit(c.Format, project)), 0o644)
	env := cli.Env{Bin: drv.Bin(), Dir: dir, Home: home, Timeout: 10 * time.Second}
	r := env.Run("-c", file, "list")
	if c.GlobalImport == 2 {
		if r.Crashed() {
			return fmt.Errorf("`list` crashed: exit %d stderr %q", r.Exit, clip(r.Stderr))
		}
		if r.Exit == 0 {
			return fmt.Errorf("the global configuration imports a file that does not exist but loading succeeded: %q", r.Stdout)
		}
		return nil
	}
	if r.Exit != 0 || r.Crashed() {
		return fmt.Errorf("`list` failed: exit %d stderr %q", r.Exit, clip(r.Stderr))
	}
	for _, n := range []string{"- ga", "- gb", "- cxa", "- cxb", "- showvars"} {
		if !strings.Contains(r.Stdout, n+"\n") {
			return fmt.Errorf("definition %q is missing from `list` (global file holds bits %06b): %q", n, c.Mask, r.Stdout)
		}
	}
	v := env.Run("-c", file, "--raw", "showvars")
	if v.Exit != 0 || !strings.Contains(v.Stdout, "VARS value-a value-b\n") {
		return fmt.Errorf("variables of the global and the project file must both be available: exit %d stdout %q stderr %q", v.Exit, v.Stdout, clip(v.Stderr))
	}
	return nil
}

// TestGlobalSplits enumerates all 64 splits of six definitions between the global and the project file.
func TestGlobalSplits(t *testing.T) {
	root := t.TempDir()
	idx, nsh := drv.Shard()
	for mask := 0; mask < 64; mask++ {
		if mask%nsh != idx {
			continue
		}
		c := SplitCase{Mask: mask, Format: []string{"yaml", "json", "toml"}[mask%3], GlobalImport: (mask / 3) % 3}
		if mask == 0 {
			c.GlobalImport = 0 // nothing lives in the global file
		}
		dir := filepath.Join(root, fmt.Sprint("g", mask))
		b, _ := json.Marshal(c)
		drv.Eval("global-split")
		if mask != 0 && mask != 63 {
			drv.NonTrivial(string(b))
		}
		drv.Sample(c)
		err := runSplit(c, dir)
		os.RemoveAll(dir)
		if err != nil {
			drv.Fail(t, "splits", "", c, "%v; case %s", err, b)
		}
	}
	drv.SetExhaustive()
}

func TestReplay(t *testing.T) {
	part, raw, ok := drv.ReplayFile()
	if !ok {
		t.Skip("no replay requested")
	}
	if part == "splits" {
		var c SplitCase
		json.Unmarshal(raw, &c)
		if err := runSplit(c, t.TempDir()); err != nil {
			drv.Fail(t, part, "", c, "%v", err)
		}
		return
	}
	var c Case
	if err := json.Unmarshal(raw, &c); err != nil {
		t.Fatal(err)
	}
	if err := run(c, t.TempDir()); err != nil {
		drv.Fail(t, part, "", c, "%v", err)
	}
}
