// Package c20 decides C20: watchers observe exactly the selected paths and fire on the subscribed events.
package c20

import (
	"encoding/json"
	"fmt"
	"os"
	"os/exec"
	"path/filepath"
	"regexp"
	"sort"
	"strings"
	"syscall"
	"testing"
	"time"

	"pgregory.net/rapid"

	"verif/harness/cli"
	"verif/harness/drv"
	"verif/harness/gen"
	"verif/harness/model"
)

func TestMain(m *testing.M) { drv.Main(m) }

// ---------------------------------------------------------------- part A: which paths are observed

// SelCase: a directory tree and include / exclude pattern sets.
type SelCase struct {
	Dirs  []string `json:"dirs"`
	Files []string `json:"files"`
	Inc   []string `json:"include"`
	Exc   []string `json:"exclude"`
	// Others: further watchers defined in the same file (not run): the same include patterns, other excludes.
	// What they select is their business; the watcher that runs must observe its own selection.
	Others [][]string `json:"other_watchers_excludes,omitempty"`
}

func (c SelCase) canon() string { b, _ := json.Marshal(c); return string(b) }

var names = []string{"a", "b", "ab", "a.go", "b.go", "ab.go", "x.md", ".hid", "c1", "c2.txt"}
var dirNames = []string{"src", "doc", "d1", "d2", ".dd"}

func genTree(rt *rapid.T) (dirs, files []string) {
	dirs = []string{""}
	for i := rapid.IntRange(0, 4).Draw(rt, "ndirs"); i > 0; i-- {
		parent := rapid.SampledFrom(dirs).Draw(rt, "parent")
		if strings.Count(parent, "/") >= 1 && parent != "" && strings.Count(parent, "/") >= 2 {
			continue
		}
		d := filepath.Join(parent, rapid.SampledFrom(dirNames).Draw(rt, "dname"))
		if strings.Count(d, "/") > 2 {
			continue
		}
		dup := false
		for _, x := range dirs {
			if x == d {
				dup = true
			}
		}
		if !dup {
			dirs = append(dirs, d)
		}
	}
	seen := map[string]bool{}
	for _, d := range dirs {
		seen[d] = true
	}
	for i := rapid.IntRange(1, 12).Draw(rt, "nfiles"); i > 0; i-- {
		f := filepath.Join(rapid.SampledFrom(dirs).Draw(rt, "fdir"), rapid.SampledFrom(names).Draw(rt, "fname"))
		if !seen[f] {
			seen[f] = true
			files = append(files, f)
		}
	}
	return dirs[1:], files
}

func genSeg(rt *rapid.T) string {
	switch rapid.IntRange(0, 7).Draw(rt, "segkind") {
	case 0:
		return "**"
	case 1:
		return "*"
	case 2:
		return "*.go"
	case 3:
		return rapid.SampledFrom([]string{"a*", "?", "??.go", "c?", "*b*", ".*", "?.*"}).Draw(rt, "segpat")
	case 4:
		return rapid.SampledFrom(dirNames).Draw(rt, "segdir")
	default:
		return rapid.SampledFrom(names).Draw(rt, "seglit")
	}
}

func genPattern(rt *rapid.T) string {
	n := rapid.IntRange(1, 4).Draw(rt, "nseg")
	segs := make([]string, n)
	for i := range segs {
		segs[i] = genSeg(rt)
		if i > 0 && segs[i] == "**" && segs[i-1] == "**" {
			// two ** in a row: the README does not say what that means and the glob library has its own idea
			segs[i] = "*"
			drv.Excluded("consecutive ** segments (meaning undocumented)", 1)
		}
	}
	return strings.Join(segs, "/")
}

// patternFor generalises an existing path into a pattern that matches it: some segments are kept,
// some become *, a prefix*, a ?-pattern of the same length, and a run of segments may become **.
func patternFor(rt *rapid.T, path string) string {
	segs := strings.Split(path, "/")
	var out []string
	for i := 0; i < len(segs); i++ {
		s := segs[i]
		switch rapid.IntRange(0, 6).Draw(rt, "generalise") {
		case 0:
			out = append(out, "*")
		case 1:
			out = append(out, s[:1]+"*")
		case 2:
			out = append(out, strings.Repeat("?", len(s)))
		case 3:
			if len(out) == 0 || out[len(out)-1] != "**" {
				// ** for this and possibly the following segments (never the last one alone: a trailing ** needs >= 1)
				skip := rapid.IntRange(0, len(segs)-1-i).Draw(rt, "skip")
				if i+skip < len(segs)-1 {
					out = append(out, "**")
					i += skip
					continue
				}
			}
			out = append(out, s)
		case 4:
			if j := strings.LastIndex(s, "."); j > 0 {
				out = append(out, "*"+s[j:])
			} else {
				out = append(out, s)
			}
		default:
			out = append(out, s)
		}
	}
	return strings.Join(out, "/")
}

// altMatch is the second reading of a trailing "/**": it also selects the directory itself.
func altMatch(pattern, path string) bool {
	if model.GlobMatch(pattern, path) {
		return true
	}
	return strings.HasSuffix(pattern, "/**") && model.GlobMatch(strings.TrimSuffix(pattern, "/**"), path)
}

func selected(c SelCase, p string, match func(string, string) bool) bool {
	sel := false
	for _, i := range c.Inc {
		if match(i, p) {
			sel = true
		}
	}
	for _, e := range c.Exc {
		if match(e, p) {
			return false
		}
	}
	return sel
}

var waitRe = regexp.MustCompile(`is waiting for events in ([^"]+)"`)

func toList(s []string) gen.List {
	l := gen.List{}
	for _, x := range s {
		l = append(l, x)
	}
	return l
}

func runSel(c SelCase, dir string) error {
	os.MkdirAll(filepath.Join(dir, "home"), 0o755)
	tree := filepath.Join(dir, "tree")
	os.MkdirAll(tree, 0o755)
	for _, d := range c.Dirs {
		os.MkdirAll(filepath.Join(tree, d), 0o755)
	}
	for _, f := range c.Files {
		os.WriteFile(filepath.Join(tree, f), []byte("x"), 0o644)
	}
	cfg := gen.Map{
		{K: "tasks", V: gen.Map{{K: "t", V: gen.Map{{K: "command", V: "true"}}}}},
		{K: "watchers", V: gen.Map{{K: "w", V: gen.Map{{K: "watch", V: toList(c.Inc)}, {K: "exclude", V: toList(c.Exc)}, {K: "task", V: "t"}}}}},
	}
	for i, exc := range c.Others {
		ws, _ := cfg.Get("watchers")
		// names on both sides of "w" in any ordering of the names
		name := []string{"a-other", "x-other", "w2", "W"}[i%4]
		cfg = cfg.Set("watchers", ws.(gen.Map).Set(name, gen.Map{{K: "watch", V: toList(c.Inc)}, {K: "exclude", V: toList(exc)}, {K: "task", V: "t"}}))
	}
	os.WriteFile(filepath.Join(tree, "w.yaml"), []byte(gen.YAML(cfg)), 0o644)
	all := append(append([]string{"w.yaml"}, c.Dirs...), c.Files...)
	// the process is stopped once its start-up lines are out: it never ends by itself
	got, stderr, err := watchStartup(tree, filepath.Join(dir, "home"))
	if err != nil {
		return err
	}
	var diff []string
	for _, p := range all {
		a, b := selected(c, p, model.GlobMatch), selected(c, p, altMatch)
		switch {
		case a != b: // "X/**" vs X itself: either reading is accepted
		case a && !got[p]:
			diff = append(diff, "not observed: "+p)
		case !a && got[p]:
			diff = append(diff, "observed but not selected: "+p)
		}
	}
	for p := range got {
		known := false
		for _, q := range all {
			if q == p {
				known = true
			}
		}
		if !known {
			diff = append(diff, "observed but not in the tree: "+p)
		}
	}
	if len(diff) > 0 {
		sort.Strings(diff)
		return fmt.Errorf("%s; include %q exclude %q tree %v; stderr %s", strings.Join(diff, "; "), c.Inc, c.Exc, all, clip(stderr))
	}
	return nil
}

// watchStartup runs `taskctl -d watch w` until the debug line of the initial task run appears (or 3 s pass).
func watchStartup(tree, home string) (map[string]bool, string, error) {
	errFile := filepath.Join(home, "stderr.txt")
	ef, _ := os.Create(errFile)
	cmd := exec.Command(drv.Bin(), "-d", "-c", "w.yaml", "watch", "w")
	cmd.Dir = tree
	cmd.Env = []string{"PATH=" + os.Getenv("PATH"), "HOME=" + home}
	cmd.Stderr = ef
	cmd.SysProcAttr = &syscall.SysProcAttr{Setpgid: true}
	if err := cmd.Start(); err != nil {
		return nil, "", nil
	}
	done := make(chan error, 1)
	go func() { done <- cmd.Wait() }()
	deadline := time.Now().Add(4 * time.Second)
	exited := false
	for time.Now().Before(deadline) {
		b, _ := os.ReadFile(errFile)
		if strings.Contains(string(b), "Executing") || strings.Contains(string(b), "level=fatal") || strings.Contains(string(b), "level=error") {
			time.Sleep(30 * time.Millisecond)
			break
		}
		select {
		case <-done:
			exited = true
		default:
		}
		if exited {
			break
		}
		time.Sleep(10 * time.Millisecond)
	}
	if !exited {
		syscall.Kill(-cmd.Process.Pid, syscall.SIGKILL)
		<-done
	}
	ef.Close()
	b, _ := os.ReadFile(errFile)
	s := string(b)
	if strings.Contains(s, "panic:") || strings.Contains(s, "fatal error:") {
		return nil, s, fmt.Errorf("the watcher crashed: %s", clip(s))
	}
	got := map[string]bool{}
	for _, m := range waitRe.FindAllStringSubmatch(s, -1) {
		got[strings.TrimSuffix(m[1], `\`)] = true
	}
	return got, s, nil
}

func clip(s string) string {
	if len(s) > 800 {
		return s[:800] + "…"
	}
	return s
}

func TestSelect(t *testing.T) {
	root := t.TempDir()
	k := 0
	rapid.Check(t, func(rt *rapid.T) {
		var c SelCase
		c.Dirs, c.Files = genTree(rt)
		paths := append(append([]string{}, c.Dirs...), c.Files...)
		pat := func() string {
			if rapid.IntRange(0, 3).Draw(rt, "free-pattern") == 0 {
				return genPattern(rt)
			}
			return patternFor(rt, rapid.SampledFrom(paths).Draw(rt, "path"))
		}
		for i := rapid.IntRange(1, 3).Draw(rt, "ninc"); i > 0; i-- {
			c.Inc = append(c.Inc, pat())
		}
		for i := rapid.IntRange(0, 2).Draw(rt, "nexc"); i > 0; i-- {
			c.Exc = append(c.Exc, pat())
		}
		for i := rapid.IntRange(0, 3).Draw(rt, "other-watchers"); i > 1; i-- {
			var exc []string
			for j := rapid.IntRange(0, 2).Draw(rt, "nexc-other"); j > 0; j-- {
				exc = append(exc, pat())
			}
			c.Others = append(c.Others, exc)
		}
		k++
		dir := filepath.Join(root, fmt.Sprint("s", k))
		defer os.RemoveAll(dir)
		all := append(append([]string{"w.yaml"}, c.Dirs...), c.Files...)
		nsel, nexcl := 0, 0
		for _, p := range all {
			if selected(c, p, model.GlobMatch) {
				nsel++
			} else if selected(SelCase{Inc: c.Inc}, p, model.GlobMatch) {
				nexcl++
			}
		}
		wild := strings.Contains(strings.Join(c.Inc, " ")+strings.Join(c.Exc, " "), "**") || strings.Contains(strings.Join(c.Inc, " "), "?")
		cls := []string{fmt.Sprintf("selected=%d", min(nsel, 5)), fmt.Sprintf("removed-by-exclude=%d", min(nexcl, 3)), fmt.Sprintf("other-watchers-in-file=%d", len(c.Others))}
		drv.Eval(cls...)
		if nsel >= 1 && nexcl >= 1 && wild {
			drv.NonTrivial(c.canon())
		}
		drv.Sample(c)
		if err := runSel(c, dir); err != nil {
			drv.Fail(rt, "select", "", c, "%v", err)
		}
	})
}

// ---------------------------------------------------------------- part B: events

// Op is one file operation performed by the checker.
type Op struct {
	Kind string `json:"kind"` // write | chmod | remove | rename | create (a new, empty file in the observed directory drop)
	File string `json:"file"`
}

// EvCase: subscribed events (empty = all) and a history of operations on the fixed tree
// src/w1.go src/w2.go (observed), src/ex.go (excluded), other.txt (unrelated).
type EvCase struct {
	Sub []string `json:"subscribed"`
	Ops []Op     `json:"ops"`
}

func (c EvCase) canon() string { b, _ := json.Marshal(c); return string(b) }

var allEvents = []string{"create", "write", "remove", "rename", "chmod"}
var evFiles = []string{"src/w1", "src/w1.go", "src/w2.go", "src/ex.go", "other.txt", ".wenv", ".cfg/w3"} // src/w1 is a textual prefix of src/w1.go

// observedEv: the files the watcher's patterns select (src/w*, src/*.go minus src/ex*, the dot-file .w* and the
// content of the dot-directory .cfg)
func observedEv(f string) bool {
	return strings.HasPrefix(f, "src/w") || strings.HasPrefix(f, ".w") || strings.HasPrefix(f, ".cfg/") || strings.HasPrefix(f, "drop/")
}

func runEvents(c EvCase, dir string, scale int) (err error, timing bool) {
	tree := filepath.Join(dir, "tree")
	home := filepath.Join(dir, "home")
	os.MkdirAll(home, 0o755)
	os.MkdirAll(filepath.Join(tree, "src"), 0o755)
	os.MkdirAll(filepath.Join(tree, ".cfg"), 0o755)
	os.MkdirAll(filepath.Join(tree, "drop"), 0o755) // observed as a directory: what happens to its entries are its events
	for _, f := range evFiles {
		os.WriteFile(filepath.Join(tree, f), []byte("x"), 0o644)
	}
	eff := c.Sub
	if len(eff) == 0 {
		eff = allEvents
	}
	subscribed := map[string]bool{}
	for _, e := range eff {
		subscribed[e] = true
	}
	log := filepath.Join(dir, "log")
	os.Remove(log)
	cfg := gen.Map{
		{K: "tasks", V: gen.Map{{K: "t", V: gen.Map{{K: "command", V: fmt.Sprintf("printf 'EV %%s %%s\\n' \"$EventName\" \"$EventPath\" >> %s", log)}}}}},
		{K: "watchers", V: gen.Map{{K: "w", V: gen.Map{{K: "watch", V: gen.List{"src/w*", "src/*.go", ".w*", ".cfg/*", "drop"}}, {K: "exclude", V: gen.List{"src/ex*"}}, {K: "events", V: toList(c.Sub)}, {K: "task", V: "t"}}}}},
	}
	os.WriteFile(filepath.Join(tree, "w.yaml"), []byte(gen.YAML(cfg)), 0o644)
	cmd := exec.Command(drv.Bin(), "-c", "w.yaml", "watch", "w")
	cmd.Dir = tree
	cmd.Env = []string{"PATH=" + os.Getenv("PATH"), "HOME=" + home}
	ef, _ := os.Create(filepath.Join(home, "stderr.txt"))
	cmd.Stderr = ef
	cmd.SysProcAttr = &syscall.SysProcAttr{Setpgid: true}
	if e := cmd.Start(); e != nil {
		return nil, false
	}
	exited := make(chan struct{})
	go func() { cmd.Wait(); close(exited) }()
	defer func() { syscall.Kill(-cmd.Process.Pid, syscall.SIGKILL); <-exited; ef.Close() }()
	readLog := func() []string {
		b, _ := os.ReadFile(log)
		var ls []string
		for _, l := range strings.Split(string(b), "\n") {
			if strings.HasPrefix(l, "EV") {
				ls = append(ls, strings.TrimSpace(strings.TrimPrefix(l, "EV")))
			}
		}
		return ls
	}
	stderrText := func() string { b, _ := os.ReadFile(filepath.Join(home, "stderr.txt")); return clip(string(b)) }
	// the initial run of the task (empty event) tells that the watches are in place
	start := time.Now()
	for len(readLog()) == 0 {
		select {
		case <-exited:
			return fmt.Errorf("the watcher process ended by itself: %s", stderrText()), false
		default:
		}
		if time.Since(start) > time.Duration(scale)*4*time.Second {
			return fmt.Errorf("the watcher did not run its task once at start-up within %ds: %s", scale*4, stderrText()), true
		}
		time.Sleep(20 * time.Millisecond)
	}
	for i, o := range c.Ops {
		before := len(readLog())
		p := filepath.Join(tree, o.File)
		switch o.Kind {
		case "write":
			f, e := os.OpenFile(p, os.O_WRONLY|os.O_APPEND, 0)
			if e == nil {
				f.Write([]byte("y"))
				f.Close()
			}
		case "chmod":
			os.Chmod(p, 0o600+os.FileMode(i))
		case "remove":
			os.Remove(p)
		case "rename":
			os.Rename(p, p+".moved")
		case "create":
			if f, e := os.OpenFile(p, os.O_CREATE|os.O_EXCL|os.O_WRONLY, 0o644); e == nil {
				f.Close()
			}
		}
		observed := observedEv(o.File)
		expect := observed && subscribed[o.Kind]
		wantLine := o.Kind + " " + o.File
		deadline := time.Now().Add(time.Duration(scale) * 4 * time.Second)
		quiet := time.Now().Add(1500 * time.Millisecond) // how long "no line" is watched for
		found := false
		for time.Now().Before(deadline) {
			for _, l := range readLog()[before:] {
				if l == wantLine {
					found = true
				}
			}
			if found || (!expect && time.Now().After(quiet)) {
				break
			}
			select {
			case <-exited:
				return fmt.Errorf("the watcher process ended during the history (op %d %v): %s", i, o, stderrText()), false
			default:
			}
			time.Sleep(40 * time.Millisecond)
		}
		if expect && !found {
			return fmt.Errorf("operation %d (%s %s): the subscribed event did not run the task with EventName=%s EventPath=%s within %ds; subscribed %v; log %v; stderr %s",
				i+1, o.Kind, o.File, o.Kind, o.File, scale*4, eff, readLog(), stderrText()), true
		}
		for _, l := range readLog()[before:] {
			parts := strings.SplitN(l, " ", 2)
			if len(parts) != 2 || parts[0] == "" {
				continue
			}
			if !subscribed[parts[0]] {
				return fmt.Errorf("the task ran for event %q, which is not subscribed (%v); history %v", l, eff, c.Ops[:i+1]), false
			}
			if !observedEv(parts[1]) {
				return fmt.Errorf("the task ran for a path that is not observed: %q; history %v", l, c.Ops[:i+1]), false
			}
		}
		if expect {
			// leave the watcher the rest of its one-second polling period, so operations stay >= 1.3 s apart
			time.Sleep(300 * time.Millisecond)
		}
	}
	return nil, false
}

func decideEvents(t drv.TB, c EvCase, dir string) {
	err, timing := runEvents(c, dir, 1)
	if err != nil && timing {
		drv.Class("retry-with-3x-bounds")
		os.RemoveAll(dir)
		err2, _ := runEvents(c, dir, 3)
		if err2 == nil {
			drv.Note("an event arrived late once and in time on the retry (machine load?): %v", err)
			return
		}
		err = err2
	}
	if err != nil {
		drv.Fail(t, "events", "", c, "%v", err)
	}
}

func TestEvents(t *testing.T) {
	root := t.TempDir()
	k := 0
	rapid.Check(t, func(rt *rapid.T) {
		var c EvCase
		for _, e := range allEvents {
			if rapid.Bool().Draw(rt, "subscribe_"+e) {
				c.Sub = append(c.Sub, e)
			}
		}
		gone := map[string]bool{}
		created := 0
		for i := rapid.IntRange(1, 6).Draw(rt, "nops"); i > 0; i-- {
			if rapid.IntRange(0, 4).Draw(rt, "new-file") == 0 {
				// a new file appears in the observed directory; mostly the next operation is on that file
				created++
				nf := fmt.Sprintf("drop/n%d", created)
				c.Ops = append(c.Ops, Op{"create", nf})
				if next := rapid.SampledFrom([]string{"write", "write", "chmod", "remove", ""}).Draw(rt, "then"); next != "" {
					c.Ops = append(c.Ops, Op{next, nf})
				}
				continue
			}
			f := rapid.SampledFrom([]string{"src/w1", "src/w1.go", "src/w1.go", "src/w2.go", "src/ex.go", "other.txt", ".wenv", ".cfg/w3"}).Draw(rt, "file")
			kind := rapid.SampledFrom([]string{"write", "write", "chmod", "chmod", "remove", "rename"}).Draw(rt, "kind")
			if gone[f] {
				continue
			}
			if kind == "remove" || kind == "rename" {
				gone[f] = true
			}
			c.Ops = append(c.Ops, Op{kind, f})
		}
		if len(c.Ops) == 0 {
			c.Ops = []Op{{"write", "src/w1.go"}}
		}
		k++
		dir := filepath.Join(root, fmt.Sprint("e", k))
		defer os.RemoveAll(dir)
		eff := c.Sub
		if len(eff) == 0 {
			eff = allEvents
		}
		sub := map[string]bool{}
		for _, e := range eff {
			sub[e] = true
		}
		onObs, unsub := 0, 0
		for _, o := range c.Ops {
			if observedEv(o.File) {
				onObs++
				if !sub[o.Kind] {
					unsub++
				}
			}
		}
		drv.Eval(fmt.Sprintf("ops=%d", len(c.Ops)), fmt.Sprintf("subscribed=%d", len(eff)))
		if onObs >= 2 && unsub >= 1 {
			drv.NonTrivial(c.canon())
		}
		drv.Sample(c)
		decideEvents(rt, c, dir)
	})
}

// TestEventPairs enumerates two-step histories: every operation kind on every observed file A,
// followed by a write on every other observed file B (also when A's name is a textual prefix of B's):
// what happens to A must not stop the watcher from serving B.
func TestEventPairs(t *testing.T) {
	root := t.TempDir()
	idx, nsh := drv.Shard()
	observed := []string{"src/w1", "src/w1.go", "src/w2.go", ".wenv", ".cfg/w3"}
	k := 0
	for _, kind := range []string{"rename", "remove", "write", "chmod"} {
		for _, a := range observed {
			for _, b := range observed {
				if a == b {
					continue
				}
				k++
				if k%nsh != idx {
					continue
				}
				c := EvCase{Ops: []Op{{kind, a}, {"write", b}}}
				dir := filepath.Join(root, fmt.Sprint("p", k))
				drv.Eval("pair-first=" + kind)
				drv.NonTrivial(c.canon())
				drv.Sample(c)
				decideEvents(t, c, dir)
				os.RemoveAll(dir)
			}
		}
	}
	// two operations on the same file: a non-destructive one first, then every kind
	for _, first := range []string{"write", "chmod"} {
		for _, second := range []string{"write", "chmod", "remove", "rename"} {
			for _, a := range observed {
				k++
				if k%nsh != idx {
					continue
				}
				c := EvCase{Ops: []Op{{first, a}, {second, a}}}
				dir := filepath.Join(root, fmt.Sprint("p", k))
				drv.Eval("same-file-pair=" + first + "+" + second)
				drv.NonTrivial(c.canon())
				decideEvents(t, c, dir)
				os.RemoveAll(dir)
			}
		}
	}
	drv.SetExhaustive()
}

func TestReplay(t *testing.T) {
	part, raw, ok := drv.ReplayFile()
	if !ok {
		t.Skip("no replay requested")
	}
	if part == "events" {
		var c EvCase
		json.Unmarshal(raw, &c)
		decideEvents(t, c, t.TempDir())
		return
	}
	var c SelCase
	json.Unmarshal(raw, &c)
	if err := runSel(c, t.TempDir()); err != nil {
		drv.Fail(t, "select", "", c, "%v", err)
	}
}

var _ = cli.Env{}
