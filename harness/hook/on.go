//go:build verif

// Package hook wraps the one verif-tagged hook of taskctl (the scheduler's polling pause).
package hook

import (
	"time"

	"github.com/taskctl/taskctl/pkg/scheduler"
)

// Have reports whether the hook is compiled in.
const Have = true

// SetPause lowers the scheduler's polling pause.
func SetPause(s *scheduler.Scheduler, d time.Duration) { s.VerifSetPause(d) }
