//go:build !verif

package hook

import (
	"time"

	"github.com/taskctl/taskctl/pkg/scheduler"
)

// Have reports whether the hook is compiled in.
const Have = false

// SetPause does nothing without the hook: the same checks run, slower (50ms polling pause).
func SetPause(s *scheduler.Scheduler, d time.Duration) {}
