// Package c16 decides C16: YAML, JSON and TOML express the same configuration identically.
package c16

import (
	"encoding/json"
	"fmt"
	"os"
	"path/filepath"
	"regexp"
	"sort"
	"strings"
	"testing"

	"pgregory.net/rapid"

	"verif/harness/cli"
	"verif/harness/drv"
	"verif/harness/gen"
)

func TestMain(m *testing.M) { drv.Main(m) }

// Case holds one abstract configuration serialised to the three formats (main file and, optionally,
// an imported file of the same format), plus the names to show / graph / run.
type Case struct {
	Main     map[string]string `json:"main"`               // ext -> text
	Imported map[string]string `json:"imported,omitempty"` // ext -> text of imp.<ext>
	Second   string            `json:"second,omitempty"`   // text of impdir/second.yaml, imported (as a directory) by imp.<ext>
	Tasks    []string          `json:"tasks"`
	Pipes    []string          `json:"pipes"`
	Features []string          `json:"features"`
}

func (c Case) canon() string { b, _ := json.Marshal(c); return string(b) }

var (
	ansi   = regexp.MustCompile("\x1b\\[[0-9;]*m")
	dur    = regexp.MustCompile(`(in|duration:?) [0-9.]+(ns|µs|ms|s|m|h)[0-9.a-zµ]*`)
	edgeRe = regexp.MustCompile(`(n\d+)->(n\d+)`)
	nodeRe = regexp.MustCompile(`(n\d+)\[label="([^"]*)"\]`)
	extRe  = regexp.MustCompile(`\b(c|imp)\.(yaml|json|toml)\b`)
)

// normRun removes what is presentation or timing: colours, durations, and the order of the
// per-stage summary lines (they are sorted by start time).
func normRun(s string) string {
	s = ansi.ReplaceAllString(s, "")
	var out []string
	for _, l := range strings.Split(s, "\n") {
		l = strings.TrimRight(l, "\r")
		if strings.HasPrefix(l, "Total duration") {
			continue
		}
		out = append(out, dur.ReplaceAllString(l, "$1 D"))
	}
	sort.Strings(out)
	return strings.Join(out, "\n")
}

func normGraph(s string) string {
	labels := map[string]string{}
	for _, m := range nodeRe.FindAllStringSubmatch(s, -1) {
		labels[m[1]] = m[2]
	}
	var edges, ls []string
	for _, m := range edgeRe.FindAllStringSubmatch(s, -1) {
		edges = append(edges, labels[m[1]]+"->"+labels[m[2]])
	}
	for _, l := range labels {
		ls = append(ls, l)
	}
	sort.Strings(ls)
	sort.Strings(edges)
	return strings.Join(ls, ",") + "|" + strings.Join(edges, ",")
}

func lastFatal(s string) string {
	if i := strings.LastIndex(s, "level=fatal"); i >= 0 {
		s = s[i:]
	}
	return extRe.ReplaceAllString(s, "$1.EXT")
}

var exts = []string{"yaml", "json", "toml"}

func run(c Case, dir string) error {
	os.MkdirAll(filepath.Join(dir, "home"), 0o755)
	os.MkdirAll(filepath.Join(dir, "work"), 0o755)
	exts := exts
	if _, ok := c.Main["toml"]; !ok {
		exts = []string{"yaml", "json"} // a case with null values
	}
	for _, ext := range exts {
		os.WriteFile(filepath.Join(dir, "c."+ext), []byte(strings.ReplaceAll(c.Main[ext], "@WORK@", filepath.Join(dir, "work"))), 0o644)
		if c.Imported != nil {
			os.WriteFile(filepath.Join(dir, "imp."+ext), []byte(strings.ReplaceAll(c.Imported[ext], "@WORK@", filepath.Join(dir, "work"))), 0o644)
		}
		if c.Second != "" {
			os.MkdirAll(filepath.Join(dir, "impdir"), 0o755)
			os.WriteFile(filepath.Join(dir, "impdir", "second.yaml"), []byte(strings.ReplaceAll(c.Second, "@WORK@", filepath.Join(dir, "work"))), 0o644)
		}
	}
	env := cli.Env{Bin: drv.Bin(), Dir: dir, Home: filepath.Join(dir, "home"), Extra: []string{"K1=parent1", "V=parentV"}}
	cmdsets := [][]string{{"list"}}
	for _, k := range c.Tasks {
		cmdsets = append(cmdsets, []string{"show", k}, []string{"--raw", k})
	}
	for _, k := range c.Pipes {
		cmdsets = append(cmdsets, []string{"graph", k}, []string{"--raw", k})
	}
	for _, args := range cmdsets {
		obs := map[string]string{}
		for _, ext := range exts {
			r := env.Run(append([]string{"-c", "c." + ext}, args...)...)
			if r.Crashed() {
				return fmt.Errorf("%s %v crashed: exit %d timedOut=%v\n%s", ext, args, r.Exit, r.TimedOut, clip(r.Stderr))
			}
			out := r.Stdout
			switch args[0] {
			case "graph":
				out = normGraph(out)
			case "--raw":
				out = normRun(out)
			}
			if r.Exit != 0 && args[0] == "list" {
				out = "LOADERR " + lastFatal(r.Stderr)
			}
			obs[ext] = fmt.Sprintf("exit=%d\n%s", r.Exit, out)
		}
		if _, three := obs["toml"]; obs["yaml"] != obs["json"] || (three && obs["yaml"] != obs["toml"]) {
			return fmt.Errorf("the three files give different results for `taskctl %s`:\n--yaml--\n%s\n--json--\n%s\n--toml--\n%s\n== YAML ==\n%s\n== TOML ==\n%s",
				strings.Join(args, " "), clip(obs["yaml"]), clip(obs["json"]), clip(obs["toml"]), c.Main["yaml"], c.Main["toml"])
		}
		if args[0] == "list" && !strings.HasPrefix(obs["yaml"], "exit=0") {
			drv.Class("rejected-in-all-three")
			return nil
		}
	}
	drv.Class("accepted")
	return nil
}

func clip(s string) string {
	if len(s) > 1500 {
		return s[:1500] + "…"
	}
	return s
}

// asciiJSON: the JSON files of the current case are written the way ASCII-only writers do: every character outside
// ASCII as a \u escape, characters beyond the BMP as a surrogate pair
var asciiJSON bool

func jsonASCII(s string) string {
	var b strings.Builder
	for _, r := range s {
		switch {
		case r < 128:
			b.WriteRune(r)
		case r > 0xFFFF:
			r -= 0x10000
			fmt.Fprintf(&b, "\\u%04x\\u%04x", 0xD800+(r>>10), 0xDC00+(r&0x3FF))
		default:
			fmt.Fprintf(&b, "\\u%04x", r)
		}
	}
	return b.String()
}

// withNulls: the current case holds null values, which TOML cannot express: it is written as YAML and JSON only.
var withNulls bool

func emitAll(m gen.Map) map[string]string {
	j := gen.JSON(m)
	if asciiJSON {
		j = jsonASCII(j)
	}
	if withNulls {
		return map[string]string{"yaml": gen.YAML(m), "json": j}
	}
	return map[string]string{"yaml": gen.YAML(m), "json": j, "toml": gen.TOML(m)}
}

func genCase(rt *rapid.T) Case {
	withNulls = rapid.IntRange(0, 3).Draw(rt, "null-values") == 0
	asciiJSON = rapid.Bool().Draw(rt, "ascii-only-json")
	cfg := gen.ValidConfig(rt, gen.ConfigOpts{Dir: "@WORK@", Nulls: withNulls})
	c := Case{}
	if withNulls {
		c.Features = append(c.Features, "null-values(yaml+json)")
	}
	tasks, _ := cfg.Get("tasks")
	tm := tasks.(gen.Map)
	c.Tasks = tm.Keys()
	if p, ok := cfg.Get("pipelines"); ok {
		c.Pipes = p.(gen.Map).Keys()
	}
	// optionally move the last task into an imported file of the same format
	if len(tm) >= 2 && rapid.IntRange(0, 2).Draw(rt, "import") == 0 {
		moved := tm[len(tm)-1]
		cfg = cfg.Set("tasks", tm[:len(tm)-1])
		impCfg := gen.Map{{K: "tasks", V: gen.Map{moved}}}
		if len(tm) >= 3 && rapid.Bool().Draw(rt, "second-level-import") {
			// the imported file imports a directory in turn (directory imports read *.yaml only, whatever
			// the format of the importing file)
			second := tm[len(tm)-2]
			cfg = cfg.Set("tasks", tm[:len(tm)-2])
			c.Second = gen.YAML(gen.Map{{K: "tasks", V: gen.Map{second}}})
			impCfg = append(gen.Map{{K: "import", V: gen.List{"impdir"}}}, impCfg...)
			c.Features = append(c.Features, "two-level-import")
		}
		c.Imported = emitAll(impCfg)
		c.Main = map[string]string{}
		for _, ext := range exts {
			with := append(gen.Map{{K: "import", V: gen.List{"imp." + ext}}}, cfg...)
			if e, ok := emitAll(with)[ext]; ok {
				c.Main[ext] = e
			}
		}
		c.Features = append(c.Features, "import")
	} else {
		c.Main = emitAll(cfg)
	}
	y := c.Main["yaml"]
	for _, f := range [][2]string{{"timeout", "\"timeout\""}, {"variations", "\"variations\""}, {"depends_on", "\"depends_on\""}, {"context", "\"contexts\""},
		{"watcher", "\"watchers\""}, {"condition", "\"condition\""}, {"exportAs", "\"exportAs\""}, {"env_file", "\"env_file\""}} {
		if strings.Contains(y, f[1]) {
			c.Features = append(c.Features, f[0])
		}
	}
	return c
}

func record(c Case) {
	cls := []string{fmt.Sprintf("tasks=%d", len(c.Tasks)), fmt.Sprintf("pipelines=%d", len(c.Pipes))}
	for _, f := range c.Features {
		cls = append(cls, "feature="+f)
	}
	drv.Eval(cls...)
	has := func(f string) bool {
		for _, x := range c.Features {
			if x == f {
				return true
			}
		}
		return false
	}
	scalarList := regexp.MustCompile(`"(command|before|after|depends_on|up|down|watch|exclude|events)": "`).MatchString(c.Main["yaml"])
	if scalarList {
		drv.Class("scalar-form-of-a-list-field")
	}
	if len(c.Pipes) >= 1 && strings.Count(c.Main["yaml"], "\"name\": \"s") >= 2 && (scalarList || has("timeout") || has("import")) {
		drv.NonTrivial(c.canon())
	}
}

func TestFormats(t *testing.T) {
	root := t.TempDir()
	k := 0
	rapid.Check(t, func(rt *rapid.T) {
		c := genCase(rt)
		k++
		dir := filepath.Join(root, fmt.Sprint("c", k))
		defer os.RemoveAll(dir)
		record(c)
		drv.Sample(map[string]any{"yaml": clip(c.Main["yaml"]), "features": c.Features})
		if err := run(c, dir); err != nil {
			drv.Fail(rt, "formats", "", c, "%v", err)
		}
	})
}

func TestReplay(t *testing.T) {
	_, raw, ok := drv.ReplayFile()
	if !ok {
		t.Skip("no replay requested")
	}
	var c Case
	if err := json.Unmarshal(raw, &c); err != nil {
		t.Fatal(err)
	}
	if err := run(c, t.TempDir()); err != nil {
		drv.Fail(t, "replay", "", c, "%v", err)
	}
}
