// Package c19 decides C19: output decoration loses and mixes nothing; the format is presentation only.
package c19

import (
	"bytes"
	"encoding/json"
	"fmt"
	"io"
	"os"
	"path/filepath"
	"strings"
	"sync"
	"testing"

	"github.com/sirupsen/logrus"
	"github.com/taskctl/taskctl/pkg/output"
	"github.com/taskctl/taskctl/pkg/task"
	"pgregory.net/rapid"

	"verif/harness/drv"
)

func TestMain(m *testing.M) {
	logrus.SetOutput(io.Discard)
	if os.Getenv("VERIF_CHILD_CASE") != "" {
		childMain()
		return
	}
	drv.Main(m)
}

// Stream is one task's output and how it is cut into Write calls.
type Stream struct {
	Name string `json:"name"`
	Data []byte `json:"data"`
	Cuts []int  `json:"cuts"` // ascending offsets in (0,len)
}

// StreamCase: 1..8 tasks writing concurrently through one format.
type StreamCase struct {
	Format   string   `json:"format"` // raw | prefixed
	Streams  []Stream `json:"streams"`
	CutInEsc bool     `json:"cut_in_esc,omitempty"` // chunk boundaries may fall inside an escape sequence (known-finding region)
}

// ---- reference normal form: remove CR, LF and CSI sequences ESC [ params final (own scanner, not taskctl's regexp)

const finals = "mHJKABCDfnr"

func normal(b []byte) []byte {
	var out []byte
	for i := 0; i < len(b); {
		c := b[i]
		if c == '\r' || c == '\n' {
			i++
			continue
		}
		if c == 0x1b && i+1 < len(b) && b[i+1] == '[' {
			j := i + 2
			for j < len(b) && (b[j] >= '0' && b[j] <= '9' || b[j] == ';') {
				j++
			}
			if j < len(b) && strings.IndexByte(finals, b[j]) >= 0 {
				i = j + 1
				continue
			}
		}
		out = append(out, c)
		i++
	}
	return out
}

// skipCSI drops CSI sequences at the start of b.
func skipCSI(b []byte) []byte {
	for len(b) >= 2 && b[0] == 0x1b && b[1] == '[' {
		j := 2
		for j < len(b) && (b[j] >= '0' && b[j] <= '9' || b[j] == ';') {
			j++
		}
		if j >= len(b) {
			return b
		}
		b = b[j+1:]
	}
	return b
}

// escSpans returns the [start,end) spans of the generator's escape sequences in b.
func escSpans(b []byte) [][2]int {
	var sp [][2]int
	for i := 0; i < len(b); i++ {
		if b[i] == 0x1b && i+1 < len(b) && b[i+1] == '[' {
			j := i + 2
			for j < len(b) && (b[j] >= '0' && b[j] <= '9' || b[j] == ';') {
				j++
			}
			if j < len(b) && strings.IndexByte(finals, b[j]) >= 0 {
				sp = append(sp, [2]int{i, j + 1})
				i = j
			}
		}
	}
	return sp
}

type sink struct {
	mu     sync.Mutex
	writes [][]byte
}

func (s *sink) Write(p []byte) (int, error) {
	s.mu.Lock()
	s.writes = append(s.writes, append([]byte{}, p...))
	s.mu.Unlock()
	return len(p), nil
}

// private reports whether byte c belongs to the private alphabet of task k (raw format, several tasks).
func private(k int, c byte) bool {
	a := alphabet(k)
	return c == a[0] || c == a[1] || c == a[2]
}

// alphabet of task k: three letters that occur in no other task's alphabet, in no escape sequence
// of the generator and not in the shared text.
func alphabet(k int) []byte {
	return []byte{"abcdeghi"[k], "EFGILMNO"[k], "pqstuvwx"[k]}
}

func runStreams(c StreamCase) error {
	sk := &sink{}
	var tasks []*task.Task
	var outs []*output.TaskOutput
	for _, st := range c.Streams {
		tk := task.NewTask()
		tk.Name = st.Name
		o, err := output.NewTaskOutput(tk, c.Format, sk, sk)
		if err != nil {
			return fmt.Errorf("NewTaskOutput: %v", err)
		}
		if err := o.Start(); err != nil {
			return fmt.Errorf("Start: %v", err)
		}
		tasks = append(tasks, tk)
		outs = append(outs, o)
	}
	var wg sync.WaitGroup
	errs := make([]error, len(c.Streams))
	for i, st := range c.Streams {
		wg.Add(1)
		go func(i int, st Stream) {
			defer wg.Done()
			w := outs[i].Stdout()
			prev := 0
			for _, cut := range append(append([]int{}, st.Cuts...), len(st.Data)) {
				if cut <= prev || cut > len(st.Data) {
					continue
				}
				chunk := append([]byte{}, st.Data[prev:cut]...) // the writer gets its own copy ...
				n, err := w.Write(chunk)
				if err != nil || n != cut-prev {
					errs[i] = fmt.Errorf("task %s: Write(%d bytes) returned n=%d err=%v", st.Name, cut-prev, n, err)
					return
				}
				if !bytes.Equal(chunk, st.Data[prev:cut]) { // ... which it must not modify (io.Writer contract)
					errs[i] = fmt.Errorf("task %s: Write modified the caller's buffer (%d bytes, first difference at %d)", st.Name, len(chunk), firstDiff(chunk, st.Data[prev:cut]))
					return
				}
				prev = cut
			}
			if err := outs[i].Finish(); err != nil {
				errs[i] = err
			}
		}(i, st)
	}
	wg.Wait()
	for _, e := range errs {
		if e != nil {
			return e
		}
	}
	// the task's recorded output is the input, whatever the format
	for i, st := range c.Streams {
		if got := tasks[i].Log.Stdout.Bytes(); !bytes.Equal(got, st.Data) {
			return fmt.Errorf("task %s: recorded output differs from what was written (%d vs %d bytes)", st.Name, len(got), len(st.Data))
		}
	}
	if c.Format == output.FormatRaw {
		var all []byte
		for _, w := range sk.writes {
			all = append(all, w...)
		}
		if len(c.Streams) == 1 {
			if !bytes.Equal(all, c.Streams[0].Data) {
				return fmt.Errorf("raw: forwarded bytes differ from the input: got %q want %q", clip(all), clip(c.Streams[0].Data))
			}
			return nil
		}
		for k, st := range c.Streams {
			var got, want []byte
			for _, b := range all {
				if private(k, b) {
					got = append(got, b)
				}
			}
			for _, b := range st.Data {
				if private(k, b) {
					want = append(want, b)
				}
			}
			if !bytes.Equal(got, want) {
				return fmt.Errorf("raw: task %s's bytes are lost, duplicated or reordered in the forwarded stream: got %q want %q", st.Name, clip(got), clip(want))
			}
		}
		return nil
	}
	// prefixed
	bodies := make([][]byte, len(c.Streams))
	// a line is: optional colour sequences, one known task name, optional colour sequences, ": ",
	// the body, LF or CR LF. Names are tried longest first ("task-10" before "task-1").
	order := make([]int, len(c.Streams))
	for i := range order {
		order[i] = i
	}
	for i := 1; i < len(order); i++ {
		for j := i; j > 0 && len(c.Streams[order[j-1]].Name) < len(c.Streams[order[j]].Name); j-- {
			order[j-1], order[j] = order[j], order[j-1]
		}
	}
	for _, w := range sk.writes {
		owner := -1
		var body []byte
		rest := skipCSI(w)
		for _, k := range order {
			name := []byte(c.Streams[k].Name)
			if bytes.HasPrefix(rest, name) {
				if r2 := skipCSI(rest[len(name):]); bytes.HasPrefix(r2, []byte(": ")) {
					owner, body = k, r2[2:]
					break
				}
			}
		}
		if owner < 0 {
			return fmt.Errorf("prefixed: a write does not start with a known task's name: %q", clip(w))
		}
		if !bytes.HasSuffix(body, []byte("\n")) {
			return fmt.Errorf("prefixed: a write is not one whole line (no line terminator at its end): %q", clip(w))
		}
		body = bytes.TrimSuffix(body[:len(body)-1], []byte("\r"))
		if bytes.IndexByte(body, '\n') >= 0 {
			return fmt.Errorf("prefixed: a write holds more than one line: %q", clip(w))
		}
		bodies[owner] = append(bodies[owner], body...)
	}
	for k, st := range c.Streams {
		got, want := normal(bodies[k]), normal(st.Data)
		if !bytes.Equal(got, want) {
			return fmt.Errorf("prefixed: task %s: lines without prefixes/terminators/ANSI differ from its output without terminators/ANSI: got %q want %q (first difference at byte %d)",
				st.Name, clip(got), clip(want), firstDiff(got, want))
		}
	}
	return nil
}

func firstDiff(a, b []byte) int {
	for i := 0; i < len(a) && i < len(b); i++ {
		if a[i] != b[i] {
			return i
		}
	}
	if len(a) < len(b) {
		return len(a)
	}
	return len(b)
}

func clip(b []byte) string {
	if len(b) > 160 {
		return string(b[:80]) + "…" + string(b[len(b)-80:])
	}
	return string(b)
}

// ---- generator

var seqs = []string{"\x1b[0m", "\x1b[31m", "\x1b[1;32m", "\x1b[38;5;196m", "\x1b[2K", "\x1b[10;20H", "\x1b[3A", "\x1b[J", "\x1b[0;0f", "\x1b[1000D"}

// bel switches the terminal bell (0x07) into the text alphabet.
var bel = true

func genStream(rt *rapid.T, k int, name string, cutInEsc bool) Stream {
	var b []byte
	alpha := alphabet(k)
	shared := []byte(" \t.:-_=/\\\"'%$#é…") // multi-byte runes included as bytes
	nl := rapid.IntRange(0, 6).Draw(rt, "lines")
	for i := 0; i < nl; i++ {
		hasEsc := false
		var line []byte
		kind := rapid.IntRange(0, 9).Draw(rt, "linekind")
		var length int
		switch {
		case kind == 0:
			length = 0
		case kind <= 6:
			length = rapid.IntRange(1, 60).Draw(rt, "len")
		case kind == 7:
			length = rapid.IntRange(4000, 4200).Draw(rt, "len4k") // around the bufio boundary
		default:
			length = rapid.IntRange(61, 10000).Draw(rt, "lenbig")
		}
		for len(line) < length {
			switch rapid.IntRange(0, 11).Draw(rt, "tok") {
			case 0:
				line = append(line, rapid.SampledFrom(seqs).Draw(rt, "seq")...)
				hasEsc = true
			case 1:
				r := rapid.SampledFrom([]string{"é", "…", "日本", "😀"}).Draw(rt, "uni")
				line = append(line, r...)
			case 2:
				line = append(line, shared[rapid.IntRange(0, len(shared)-1).Draw(rt, "sh")])
			case 4:
				// the terminal bell, typically right behind a coloured word: "ESC[31mERROR BEL"
				if bel && rapid.IntRange(0, 2).Draw(rt, "bel") == 0 {
					if rapid.Bool().Draw(rt, "bel-after-colour") {
						line = append(line, rapid.SampledFrom(seqs).Draw(rt, "seq")...)
						line = append(line, alpha[0], alpha[1])
					}
					line = append(line, 0x07)
				} else {
					line = append(line, alpha[2])
				}
			case 3:
				if rapid.IntRange(0, 3).Draw(rt, "barecr") == 0 {
					line = append(line, '\r')
				} else {
					line = append(line, alpha[1])
				}
			default:
				n := rapid.IntRange(1, 40).Draw(rt, "run")
				if length > 200 {
					n = rapid.IntRange(1, 800).Draw(rt, "runbig")
				}
				ch := alpha[rapid.IntRange(0, 2).Draw(rt, "a")]
				for j := 0; j < n && len(line) < length; j++ {
					line = append(line, ch)
				}
			}
		}
		_ = hasEsc
		b = append(b, line...)
		last := i == nl-1
		switch t := rapid.IntRange(0, 5).Draw(rt, "term"); {
		case last && t == 0:
			// unterminated tail
		case t <= 3:
			b = append(b, '\n')
		case t == 4:
			b = append(b, '\r', '\n')
		default:
			b = append(b, '\r', '\n')
		}
	}
	st := Stream{Name: name, Data: b}
	if len(b) > 1 {
		nc := rapid.IntRange(0, 12).Draw(rt, "ncuts")
		spans := escSpans(b)
		seen := map[int]bool{}
		for i := 0; i < nc; i++ {
			var cut int
			switch rapid.IntRange(0, 3).Draw(rt, "cutkind") {
			case 0: // right after a CR (between CR and LF) or after an LF
				idx := bytes.IndexAny(b[rapid.IntRange(0, len(b)-1).Draw(rt, "from"):], "\r\n")
				if idx < 0 {
					cut = rapid.IntRange(1, len(b)-1).Draw(rt, "cut")
				} else {
					cut = idx + 1
				}
			default:
				cut = rapid.IntRange(1, len(b)-1).Draw(rt, "cut")
			}
			if cut <= 0 || cut >= len(b) || seen[cut] {
				continue
			}
			inside := false
			for _, sp := range spans {
				if cut > sp[0] && cut < sp[1] {
					inside = true
				}
			}
			if inside && !cutInEsc {
				drv.Excluded("chunk boundary inside an escape sequence (known finding ansi-split)", 1)
				continue
			}
			seen[cut] = true
			st.Cuts = append(st.Cuts, cut)
		}
		sortInts(st.Cuts)
	}
	return st
}

func sortInts(a []int) {
	for i := 1; i < len(a); i++ {
		for j := i; j > 0 && a[j-1] > a[j]; j-- {
			a[j-1], a[j] = a[j], a[j-1]
		}
	}
}

// task names are data: formatting verbs, template braces, blanks and non-ASCII letters are all legal in them
var nameAlphabet = []string{"t", "task", "task-1", "task-10", "a.b", "build:all", "x_y", "T", "cov-100%", "deploy-%d", "a%20b", "%s", "{{.x}}", "build app", "süß", "100%%"}

func genStreamCase(rt *rapid.T, cutInEsc bool) StreamCase {
	c := StreamCase{Format: rapid.SampledFrom([]string{"raw", "prefixed", "prefixed"}).Draw(rt, "format"), CutInEsc: cutInEsc}
	n := rapid.IntRange(1, 8).Draw(rt, "tasks")
	names := rapid.Permutation(nameAlphabet).Draw(rt, "names")
	for k := 0; k < n; k++ {
		c.Streams = append(c.Streams, genStream(rt, k, names[k], cutInEsc))
	}
	return c
}

func recordStreams(c StreamCase) {
	cls := []string{"format=" + c.Format, fmt.Sprintf("tasks=%d", len(c.Streams))}
	nt := len(c.Streams) >= 2
	for _, st := range c.Streams {
		if len(escSpans(st.Data)) > 0 {
			cls = append(cls, "has-escape-sequence")
			nt = true
		}
		prev := 0
		for _, l := range bytes.Split(st.Data, []byte("\n")) {
			if len(l) > 4096 {
				cls = append(cls, "line>4096")
				nt = true
			}
			_ = prev
		}
		for _, cut := range st.Cuts {
			if st.Data[cut-1] == '\r' && st.Data[cut] == '\n' {
				cls = append(cls, "cut-between-CR-LF")
				nt = true
			} else if st.Data[cut-1] != '\n' {
				cls = append(cls, "cut-inside-line")
				nt = true
			}
		}
	}
	drv.Eval(dedupe(cls)...)
	if nt {
		b, _ := json.Marshal(c)
		drv.NonTrivial(string(b))
	}
}

func dedupe(in []string) []string {
	seen := map[string]bool{}
	var out []string
	for _, s := range in {
		if !seen[s] {
			seen[s] = true
			out = append(out, s)
		}
	}
	return out
}

// TestStreams: chunk boundaries anywhere except inside an escape sequence (that region is the known finding).
func TestStreams(t *testing.T) {
	rapid.Check(t, func(rt *rapid.T) {
		c := genStreamCase(rt, false)
		recordStreams(c)
		drv.Sample(sampleView(c))
		if err := runStreams(c); err != nil {
			drv.Fail(rt, "streams", "", c, "%v", err)
		}
	})
}

// TestProbeAnsiSplit generates cases inside the known-finding region: prefixed output with a chunk
// boundary inside an escape sequence. A failure here is classified: it is the known finding only if
// the same data passes once the offending cuts are removed.
func TestProbeAnsiSplit(t *testing.T) {
	rapid.Check(t, func(rt *rapid.T) {
		c := genStreamCase(rt, true)
		c.Format = "prefixed"
		recordStreams(c)
		err := runStreams(c)
		if err == nil {
			return
		}
		// classifier
		d := c
		d.Streams = nil
		for _, st := range c.Streams {
			spans := escSpans(st.Data)
			var cuts []int
			for _, cut := range st.Cuts {
				inside := false
				for _, sp := range spans {
					if cut > sp[0] && cut < sp[1] {
						inside = true
					}
				}
				if !inside {
					cuts = append(cuts, cut)
				}
			}
			d.Streams = append(d.Streams, Stream{Name: st.Name, Data: st.Data, Cuts: cuts})
		}
		if err2 := runStreams(d); err2 == nil {
			drv.Known("ansi-split", err.Error())
			return
		}
		drv.Fail(rt, "probe", "", c, "fails also without the cuts inside escape sequences: %v", err)
	})
}

func sampleView(c StreamCase) any {
	type sv struct {
		Name  string `json:"name"`
		Bytes int    `json:"bytes"`
		Head  string `json:"head"`
		Cuts  []int  `json:"cuts"`
	}
	var v []sv
	for _, s := range c.Streams {
		h := s.Data
		if len(h) > 60 {
			h = h[:60]
		}
		v = append(v, sv{s.Name, len(s.Data), string(h), s.Cuts})
	}
	return map[string]any{"format": c.Format, "streams": v}
}

func TestReplay(t *testing.T) {
	part, raw, ok := drv.ReplayFile()
	if !ok {
		t.Skip("no replay requested")
	}
	if part == "formats" {
		replayFormats(t, raw)
		return
	}
	if part == "startup" {
		// a hang at start-up is a matter of timing: the saved case is launched a number of times
		var sc StartupCase
		if err := json.Unmarshal(raw, &sc); err != nil {
			t.Fatal(err)
		}
		root := t.TempDir()
		for i := 0; i < 60; i++ {
			if err := runStartup(sc, filepath.Join(root, fmt.Sprint("r", i))); err != nil {
				drv.Fail(t, part, "", sc, "%v (launch %d of 60)", err, i+1)
			}
			os.RemoveAll(filepath.Join(root, fmt.Sprint("r", i)))
		}
		return
	}
	var c StreamCase
	if err := json.Unmarshal(raw, &c); err != nil {
		t.Fatal(err)
	}
	if err := runStreams(c); err != nil {
		sig := ""
		if c.CutInEsc {
			sig = "ansi-split"
		}
		drv.Fail(t, part, sig, c, "%v", err)
	}
}
