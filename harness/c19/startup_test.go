package c19

import (
	"fmt"
	"os"
	"path/filepath"
	"testing"
	"time"

	"verif/harness/cli"
	"verif/harness/drv"
	"verif/harness/gen"
)

// StartupCase: one run of the binary with the cockpit format over a pipeline of Width stages that start
// together (so that several tasks announce themselves to the cockpit while it is being set up).
type StartupCase struct {
	Width  int    `json:"width"`
	Format string `json:"format"`
	Run    int    `json:"run"`
}

func runStartup(c StartupCase, dir string) error {
	os.MkdirAll(filepath.Join(dir, "home"), 0o755)
	tasks, stages := gen.Map{}, gen.List{}
	for i := 0; i < c.Width; i++ {
		tasks = tasks.Set(fmt.Sprint("t", i), gen.Map{{K: "command", V: gen.List{"printf 'x\\n'"}}})
		stages = append(stages, gen.Map{{K: "name", V: fmt.Sprint("s", i)}, {K: "task", V: fmt.Sprint("t", i)}})
	}
	cfg := gen.Map{{K: "tasks", V: tasks}, {K: "pipelines", V: gen.Map{{K: "pp", V: stages}}}}
	os.WriteFile(filepath.Join(dir, "t.yaml"), []byte(gen.YAML(cfg)), 0o644)
	env := cli.Env{Bin: drv.Bin(), Dir: dir, Home: filepath.Join(dir, "home"), Timeout: 25 * time.Second}
	r := env.Run("-c", "t.yaml", "--output", c.Format, "pp")
	if r.TimedOut {
		return fmt.Errorf("`taskctl --output %s pp` (%d trivial stages that start together) did not end within 25 s (it normally takes well under a second): the process hangs", c.Format, c.Width)
	}
	if r.Crashed() || r.Exit != 0 {
		return fmt.Errorf("`taskctl --output %s pp`: exit %d stderr %q", c.Format, r.Exit, r.Stderr)
	}
	return nil
}

// TestCockpitStartup launches the binary VERIF_N times per shard: the format is presentation only - a run ends
// whatever the format, every time. (The cockpit is process-global state, so every evaluation needs a process.)
func TestCockpitStartup(t *testing.T) {
	root := t.TempDir()
	n := drv.N(100)
	for i := 0; i < n; i++ {
		c := StartupCase{Width: 2 + i%3, Format: "cockpit", Run: i}
		if i%10 == 9 {
			c.Format = "prefixed"
		}
		dir := filepath.Join(root, fmt.Sprint("r", i))
		drv.Eval("format="+c.Format, fmt.Sprintf("width=%d", c.Width))
		if i < 12 {
			drv.NonTrivial(fmt.Sprintf("%s/%d", c.Format, c.Width))
			drv.Sample(c)
		}
		err := runStartup(c, dir)
		os.RemoveAll(dir)
		if err != nil {
			drv.Fail(t, "startup", "", c, "%v (run %d of %d in this shard)", err, i+1, n)
		}
	}
}
