package c19

import (
	"bytes"
	"context"
	"encoding/json"
	"fmt"
	"io"
	"os"
	"os/exec"
	"path/filepath"
	"strings"
	"sync"
	"syscall"
	"testing"
	"time"

	"github.com/taskctl/taskctl/pkg/output"
	"github.com/taskctl/taskctl/pkg/runner"
	"github.com/taskctl/taskctl/pkg/task"
	"pgregory.net/rapid"

	"verif/harness/drv"
)

// FTask is one task of a format case.
type FTask struct {
	Outcome string `json:"outcome"` // ok fail allowed skipped beforefail renderfail
	DurMs   int    `json:"dur_ms"`
}

// FormatCase: the tasks run in one fresh process per format (the cockpit keeps process-global state).
// With Frames set the child drives the output layer directly (Start, wait, Finish per task) with
// waits of Frames[i] microseconds: task durations at and around whole cockpit frames.
type FormatCase struct {
	Tasks      []FTask `json:"tasks,omitempty"`
	Concurrent bool    `json:"concurrent,omitempty"`
	Frames     []int   `json:"frames_us,omitempty"`
	SlowUs     int     `json:"slow_sink_us,omitempty"` // every write to the terminal takes this long (a slow terminal or pipe)
}

type slowWriter struct{ d time.Duration }

func (w slowWriter) Write(p []byte) (int, error) { time.Sleep(w.d); return len(p), nil }

func mkTask(i int, ft FTask) *task.Task {
	t := task.NewTask()
	t.Name = fmt.Sprintf("t%d-%s", i, ft.Outcome)
	sl := fmt.Sprintf("sleep %d.%03d", ft.DurMs/1000, ft.DurMs%1000)
	t.Commands = []string{"printf 'line1\\n'", sl, "printf 'line2'"}
	switch ft.Outcome {
	case "fail":
		t.Commands = append(t.Commands, "exit 9")
	case "allowed":
		t.AllowFailure = true
		t.Commands = []string{"printf 'line1\\n'", "exit 9", sl, "printf 'line2'"}
	case "skipped":
		t.Condition = "exit 1"
	case "beforefail":
		t.Before = []string{"exit 4"}
	case "renderfail":
		t.Commands = []string{"printf 'x'", sl, "echo {{ .nope }}"}
	}
	return t
}

// childMain runs the case under one format and writes the recorded results.
func childMain() {
	var c FormatCase
	b, err := os.ReadFile(os.Getenv("VERIF_CHILD_CASE"))
	if err != nil || json.Unmarshal(b, &c) != nil {
		os.Exit(97)
	}
	if len(c.Frames) > 0 {
		for i, us := range c.Frames {
			tk := task.NewTask()
			tk.Name = fmt.Sprintf("frame%d", i)
			var sinkW io.Writer = io.Discard
			if c.SlowUs > 0 {
				sinkW = slowWriter{time.Duration(c.SlowUs) * time.Microsecond}
			}
			o, err := output.NewTaskOutput(tk, os.Getenv("VERIF_CHILD_FORMAT"), sinkW, sinkW)
			if err != nil {
				os.Exit(95)
			}
			o.Start()
			tk.Start = time.Now()
			time.Sleep(time.Duration(us) * time.Microsecond)
			o.Stdout().Write([]byte("x\n"))
			tk.End = time.Now()
			o.Finish()
		}
		output.Close()
		os.WriteFile(os.Getenv("VERIF_CHILD_OUT"), []byte("[]"), 0o644)
		os.Exit(0)
	}
	r, err := runner.NewTaskRunner()
	if err != nil {
		os.Exit(96)
	}
	r.Stdout, r.Stderr = io.Discard, io.Discard
	r.OutputFormat = os.Getenv("VERIF_CHILD_FORMAT")
	res := make([]string, len(c.Tasks))
	run := func(i int) {
		tk := mkTask(i, c.Tasks[i])
		err := r.Run(tk)
		res[i] = fmt.Sprintf("err=%v exit=%d errored=%v skipped=%v out=%q", err != nil, tk.ExitCode, tk.Errored, tk.Skipped, tk.Output())
	}
	if c.Concurrent {
		var wg sync.WaitGroup
		for i := range c.Tasks {
			wg.Add(1)
			go func(i int) { defer wg.Done(); run(i) }(i)
		}
		wg.Wait()
	} else {
		for i := range c.Tasks {
			run(i)
		}
	}
	r.Finish()
	out, _ := json.Marshal(res)
	os.WriteFile(os.Getenv("VERIF_CHILD_OUT"), out, 0o644)
	os.Exit(0)
}

type childResult struct {
	res      []string
	exit     int
	timedOut bool
	stderr   string
	wall     time.Duration
}

func runChild(c FormatCase, format, dir string, timeout time.Duration) childResult {
	cf := filepath.Join(dir, "case.json")
	of := filepath.Join(dir, "out-"+format+".json")
	b, _ := json.Marshal(c)
	os.WriteFile(cf, b, 0o644)
	os.Remove(of)
	ctx, cancel := context.WithTimeout(context.Background(), timeout)
	defer cancel()
	cmd := exec.CommandContext(ctx, os.Args[0], "-test.run", "^$")
	cmd.Env = append(os.Environ(), "VERIF_CHILD_CASE="+cf, "VERIF_CHILD_FORMAT="+format, "VERIF_CHILD_OUT="+of, "VERIF_OUT=", "VERIF_FAIL=", "VERIF_PENDING=")
	cmd.SysProcAttr = &syscall.SysProcAttr{Setpgid: true}
	cmd.Cancel = func() error {
		// ask for a goroutine dump first: it shows whether the child is dead-locked or merely slow
		syscall.Kill(cmd.Process.Pid, syscall.SIGQUIT)
		time.Sleep(300 * time.Millisecond)
		return syscall.Kill(-cmd.Process.Pid, syscall.SIGKILL)
	}
	cmd.WaitDelay = 2 * time.Second
	var se bytes.Buffer
	cmd.Stdout, cmd.Stderr = io.Discard, &se
	start := time.Now()
	err := cmd.Run()
	cr := childResult{stderr: se.String(), wall: time.Since(start)}
	if ctx.Err() != nil {
		cr.timedOut = true
		return cr
	}
	if err != nil {
		if ee, ok := err.(*exec.ExitError); ok {
			cr.exit = ee.ExitCode()
		} else {
			cr.exit = -2
		}
	}
	if ob, err := os.ReadFile(of); err == nil {
		json.Unmarshal(ob, &cr.res)
	}
	return cr
}

// errInconclusive marks an observation that must not count either way (overloaded machine).
type errInconclusive struct{ msg string }

func (e errInconclusive) Error() string { return e.msg }

func runFormats(c FormatCase, dir string) error {
	var base []string
	formats := []string{"raw", "prefixed", "cockpit"}
	if len(c.Frames) > 0 {
		formats = []string{"cockpit"} // nothing to compare: the oracle is "the process ends normally"
	}
	for _, f := range formats {
		cr := runChild(c, f, dir, 12*time.Second)
		if cr.timedOut {
			// calibration: is the machine able to run a trivial child promptly?
			cal := runChild(FormatCase{Tasks: []FTask{{Outcome: "ok"}}}, "raw", dir, 12*time.Second)
			if cal.timedOut || cal.wall > 3*time.Second {
				return errInconclusive{fmt.Sprintf("child timed out, and so did the calibration child (%v): machine overloaded", cal.wall)}
			}
			return fmt.Errorf("format %s: the process did not finish within 12s (a trivial child needed %v); goroutine dump: %s", f, cal.wall, clipStr(dumpOf(cr.stderr), 1500))
		}
		if cr.exit != 0 || len(cr.res) != len(c.Tasks) {
			return fmt.Errorf("format %s: the process died (exit %d): %s", f, cr.exit, clipStr(cr.stderr, 1200))
		}
		if base == nil {
			base = cr.res
			continue
		}
		for i := range base {
			if base[i] != cr.res[i] {
				return fmt.Errorf("task %d (%s): recorded result differs between formats: raw {%s} vs %s {%s}", i, c.Tasks[i].Outcome, base[i], f, cr.res[i])
			}
		}
	}
	return nil
}

func dumpOf(s string) string {
	if i := strings.Index(s, "SIGQUIT"); i >= 0 {
		s = s[i:]
	}
	var keep []string
	for _, blk := range strings.Split(s, "\n\n") {
		if strings.Contains(blk, "taskctl/pkg/output") || strings.Contains(blk, "spinner") {
			keep = append(keep, blk)
		}
	}
	if len(keep) > 0 {
		return strings.Join(keep, "\n\n")
	}
	return s
}

func clipStr(s string, n int) string {
	if len(s) > n {
		return s[:n] + "…"
	}
	return s
}

var outcomes = []string{"ok", "fail", "allowed", "skipped", "beforefail", "renderfail"}

func decideFormats(t drv.TB, c FormatCase, dir string) {
	b, _ := json.Marshal(c)
	cls := []string{fmt.Sprintf("tasks=%d", len(c.Tasks))}
	if len(c.Tasks) > 0 {
		cls = append(cls, "first="+c.Tasks[0].Outcome)
	} else {
		cls = append(cls, "frame-aligned-durations")
	}
	if c.Concurrent {
		cls = append(cls, "concurrent")
	}
	drv.Eval(cls...)
	drv.NonTrivial(string(b))
	err := runFormats(c, dir)
	if err == nil {
		return
	}
	if _, ok := err.(errInconclusive); ok {
		drv.Note("inconclusive: %v", err)
		fmt.Println("VERIF-INCONCLUSIVE", err)
		os.Exit(3)
	}
	drv.Fail(t, "formats", "", c, "%v; case %s", err, b)
}

// TestFormats: 1..3 tasks with drawn outcomes and durations around the cockpit's 100ms frame, run
// sequentially or concurrently, once per format in a fresh process each.
func TestFormats(t *testing.T) {
	root := t.TempDir()
	k := 0
	rapid.Check(t, func(rt *rapid.T) {
		n := rapid.IntRange(1, 3).Draw(rt, "tasks")
		c := FormatCase{Concurrent: rapid.Bool().Draw(rt, "concurrent")}
		for i := 0; i < n; i++ {
			c.Tasks = append(c.Tasks, FTask{Outcome: rapid.SampledFrom(outcomes).Draw(rt, "outcome"), DurMs: rapid.IntRange(0, 250).Draw(rt, "dur")})
		}
		k++
		dir := filepath.Join(root, fmt.Sprint("f", k))
		os.MkdirAll(dir, 0o755)
		defer os.RemoveAll(dir)
		drv.Sample(c)
		decideFormats(rt, c, dir)
	})
}

// TestCockpitFrames: task durations at whole multiples of the cockpit's repaint interval (+- a drawn
// jitter of up to 400us), 8..14 tasks one after another in a fresh process per format: the moment a
// task finishes coincides with a repaint, which is where the output layer can lock up.
func TestCockpitFrames(t *testing.T) {
	root := t.TempDir()
	k := 0
	rapid.Check(t, func(rt *rapid.T) {
		n := rapid.IntRange(8, 14).Draw(rt, "tasks")
		c := FormatCase{SlowUs: rapid.SampledFrom([]int{0, 100, 200, 400}).Draw(rt, "slow_sink_us")}
		if c.SlowUs > 0 {
			n += 10
		}
		for i := 0; i < n; i++ {
			c.Frames = append(c.Frames, rapid.IntRange(1, 2).Draw(rt, "frames")*100000+rapid.IntRange(-400, 400).Draw(rt, "jitter_us"))
		}
		k++
		dir := filepath.Join(root, fmt.Sprint("k", k))
		os.MkdirAll(dir, 0o755)
		defer os.RemoveAll(dir)
		drv.Sample(c)
		decideFormats(rt, c, dir)
	})
}

// TestFormatsMatrix: every outcome as the first task of the process under every format (the
// quantifier's "all task outcomes under each of the three formats"), followed by a successful task.
func TestFormatsMatrix(t *testing.T) {
	root := t.TempDir()
	idx, nsh := drv.Shard()
	k := 0
	for _, first := range outcomes {
		for _, second := range []string{"", "ok", "skipped"} {
			for _, dur := range []int{0, 60, 110} {
				k++
				if k%nsh != idx {
					continue
				}
				c := FormatCase{Tasks: []FTask{{Outcome: first, DurMs: dur}}}
				if second != "" {
					c.Tasks = append(c.Tasks, FTask{Outcome: second, DurMs: dur})
				}
				dir := filepath.Join(root, fmt.Sprint("m", k))
				os.MkdirAll(dir, 0o755)
				decideFormats(t, c, dir)
				os.RemoveAll(dir)
			}
		}
	}
	drv.SetExhaustive()
}

func replayFormats(t *testing.T, raw json.RawMessage) {
	var c FormatCase
	if err := json.Unmarshal(raw, &c); err != nil {
		t.Fatal(err)
	}
	// a timing-dependent failure (the cockpit dead-lock) does not show on every run: try several times
	for i := 0; i < 25; i++ {
		dir := t.TempDir()
		if err := runFormats(c, dir); err != nil {
			drv.Fail(t, "formats", "", c, "attempt %d: %v", i+1, err)
		}
	}
}
