// Package c01cli is the system-level part of C01/C02/C03: generated pipelines with real shell tasks
// (random durations) run through the binary; the ordered start/end trace, the set of executed
// stages, the summary and the exit status are compared with a reference evaluation of the DAG.
package c01cli

import (
	"encoding/json"
	"fmt"
	"os"
	"path/filepath"
	"regexp"
	"strings"
	"testing"
	"time"

	"pgregory.net/rapid"

	"verif/harness/cli"
	"verif/harness/drv"
	"verif/harness/gen"
)

func TestMain(m *testing.M) { drv.Main(m) }

// Stage outcomes
const (
	ok        = "ok"
	fail      = "fail"       // task exits non-zero, no allow_failure
	failStage = "fail-stage" // task exits non-zero, stage has allow_failure
	failTask  = "fail-task"  // first command fails, task has allow_failure: the task succeeds
	condFalse = "cond-false" // stage condition exits non-zero
)

// Stage of the generated pipeline.
type Stage struct {
	Name    string   `json:"name"`
	Deps    []string `json:"deps,omitempty"`
	Outcome string   `json:"outcome"`
	SleepMs int      `json:"sleep_ms"`
	Task    string   `json:"task"`
}

// Case: one pipeline, declaration order = order of Stages.
type Case struct {
	Stages []Stage `json:"stages"`
	Output string  `json:"output"` // raw | prefixed
}

func (c Case) canon() string { b, _ := json.Marshal(c); return string(b) }

// evaluate is the reference: final status per stage. A condition-false stage is skipped (taskctl looks
// at conditions first) and satisfies its dependants; a stage is cancelled when a dependency failed
// without allow_failure or was cancelled.
func (c Case) evaluate() map[string]string {
	st := map[string]string{}
	by := map[string]Stage{}
	for _, s := range c.Stages {
		by[s.Name] = s
	}
	var eval func(n string) string
	eval = func(n string) string {
		if v, ok := st[n]; ok {
			return v
		}
		s := by[n]
		if s.Outcome == condFalse {
			st[n] = "skipped"
			return "skipped"
		}
		res := ""
		for _, d := range s.Deps {
			switch eval(d) {
			case "failed", "cancelled":
				res = "cancelled"
			}
		}
		if res == "" {
			switch s.Outcome {
			case fail:
				res = "failed"
			case failStage:
				res = "completed" // allowed failure: the stage ends as done
			default:
				res = "completed"
			}
		}
		st[n] = res
		return res
	}
	for _, s := range c.Stages {
		eval(s.Name)
	}
	return st
}

var summaryRe = regexp.MustCompile(`- Stage (\S+) (was completed|failed|was cancelled|was skipped)`)
var ansiRe = regexp.MustCompile("\x1b\\[[0-9;]*m")

func run(c Case, dir string) error {
	os.MkdirAll(filepath.Join(dir, "home"), 0o755)
	trace := filepath.Join(dir, "trace")
	tasks := gen.Map{}
	var stages gen.List
	for _, s := range c.Stages {
		exit := "true"
		switch s.Outcome {
		case fail, failStage:
			exit = "exit 3"
		}
		cmds := gen.List{fmt.Sprintf("printf 'S:%s\\n' >> %s", s.Name, trace)}
		if s.Outcome == failTask {
			cmds = append(cmds, "exit 5")
		}
		cmds = append(cmds, fmt.Sprintf("sleep 0.%03d; printf 'E:%s\\n' >> %s; %s", s.SleepMs, s.Name, trace, exit))
		tk := gen.Map{{K: "command", V: cmds}}
		if s.Outcome == failTask {
			tk = tk.Set("allow_failure", true)
		}
		tasks = tasks.Set(s.Task, tk)
		st := gen.Map{{K: "name", V: s.Name}, {K: "task", V: s.Task}}
		if len(s.Deps) > 0 {
			var d gen.List
			for _, x := range s.Deps {
				d = append(d, x)
			}
			st = st.Set("depends_on", d)
		}
		if s.Outcome == failStage {
			st = st.Set("allow_failure", true)
		}
		if s.Outcome == condFalse {
			st = st.Set("condition", "false")
		}
		stages = append(stages, st)
	}
	cfg := gen.Map{{K: "tasks", V: tasks}, {K: "pipelines", V: gen.Map{{K: "pp", V: stages}}}}
	os.WriteFile(filepath.Join(dir, "t.yaml"), []byte(gen.YAML(cfg)), 0o644)
	env := cli.Env{Bin: drv.Bin(), Dir: dir, Home: filepath.Join(dir, "home"), Timeout: 60 * time.Second}
	r := env.Run("-c", "t.yaml", "--output", c.Output, "pp")
	if r.Crashed() {
		return fmt.Errorf("[C01 C02 C03] the run crashed or did not return: exit %d timedOut=%v stderr %q", r.Exit, r.TimedOut, clip(r.Stderr))
	}
	want := c.evaluate()
	b, _ := os.ReadFile(trace)
	toks := strings.Fields(string(b))
	pos := map[string]int{}
	count := map[string]int{}
	for i, t := range toks {
		count[t]++
		if _, seen := pos[t]; !seen {
			pos[t] = i
		}
	}
	anyFailed := false
	for _, s := range c.Stages {
		w := want[s.Name]
		ran := w == "completed" || w == "failed"
		if w == "failed" {
			anyFailed = true
		}
		if ran && (count["S:"+s.Name] != 1 || count["E:"+s.Name] != 1) {
			return fmt.Errorf("[C02 C03] stage %s must run exactly once (model: %s): it started %d and ended %d times; trace %v", s.Name, w, count["S:"+s.Name], count["E:"+s.Name], toks)
		}
		if !ran && count["S:"+s.Name] > 0 {
			return fmt.Errorf("[C02 C01] stage %s must not run (model: %s) but it did; trace %v", s.Name, w, toks)
		}
		if ran {
			for _, d := range s.Deps {
				if want[d] == "completed" || want[d] == "failed" {
					if pe, ok := pos["E:"+d]; !ok || pe > pos["S:"+s.Name] {
						return fmt.Errorf("[C01] stage %s started before its dependency %s had finished; trace %v", s.Name, d, toks)
					}
				}
			}
		}
	}
	if (r.Exit != 0) != anyFailed {
		return fmt.Errorf("[C02 C07] exit status %d, but a stage failed without allow_failure = %v; stderr %q", r.Exit, anyFailed, clip(r.Stderr))
	}
	if !anyFailed {
		// the summary is printed for successful runs: every stage with its final status
		got := map[string]string{}
		for _, m := range summaryRe.FindAllStringSubmatch(ansiRe.ReplaceAllString(r.Stdout, ""), -1) {
			got[m[1]] = strings.TrimPrefix(m[2], "was ")
		}
		for _, s := range c.Stages {
			if got[s.Name] != want[s.Name] {
				return fmt.Errorf("[C02] summary says stage %s %q, the model says %q; stdout %q", s.Name, got[s.Name], want[s.Name], clip(r.Stdout))
			}
		}
	}
	return nil
}

func clip(s string) string {
	if len(s) > 700 {
		return s[:700] + "…"
	}
	return s
}

var taskNames = []string{"build", "build-app", "build.app", "test", "Test", "deploy", "lint:all"}

func genCase(rt *rapid.T) Case {
	c := Case{Output: rapid.SampledFrom([]string{"raw", "prefixed"}).Draw(rt, "output")}
	n := rapid.IntRange(2, 8).Draw(rt, "stages")
	density := rapid.IntRange(1, 3).Draw(rt, "density")
	for i := 0; i < n; i++ {
		s := Stage{Name: fmt.Sprintf("s%d", i), SleepMs: rapid.SampledFrom([]int{0, 0, 5, 20, 60, 120}).Draw(rt, "sleep"),
			Outcome: rapid.SampledFrom([]string{ok, ok, ok, ok, fail, failStage, failTask, condFalse}).Draw(rt, "outcome")}
		// one task per stage; the names may collide once normalised (they are distinct as written)
		s.Task = fmt.Sprintf("%s-%d", rapid.SampledFrom(taskNames).Draw(rt, "task"), i)
		if rapid.IntRange(0, 3).Draw(rt, "plain-task-name") == 0 {
			s.Task = fmt.Sprintf("t%d", i)
		}
		for j := 0; j < i; j++ {
			if rapid.IntRange(0, 5).Draw(rt, "edge") < density {
				s.Deps = append(s.Deps, fmt.Sprintf("s%d", j))
			}
		}
		c.Stages = append(c.Stages, s)
	}
	// declaration order independent of the dependency order
	c.Stages = rapid.Permutation(c.Stages).Draw(rt, "declaration-order")
	return c
}

func record(c Case) {
	want := c.evaluate()
	cls := []string{fmt.Sprintf("stages=%d", len(c.Stages))}
	edges, failed, cancelled := 0, 0, 0
	for _, s := range c.Stages {
		edges += len(s.Deps)
		switch want[s.Name] {
		case "failed":
			failed++
		case "cancelled":
			cancelled++
		}
	}
	if failed > 0 {
		cls = append(cls, "non-allowed-failure")
	}
	if cancelled > 0 {
		cls = append(cls, "cancelled-dependants")
	}
	drv.Eval(cls...)
	switch drv.Prop() {
	case "C02":
		if failed > 0 && cancelled > 0 && len(c.Stages)-failed-cancelled > 0 {
			drv.NonTrivial(c.canon())
		}
	default:
		if edges >= 1 && len(c.Stages) >= 2 {
			drv.NonTrivial(c.canon())
		}
	}
}

func decide(t drv.TB, c Case, dir string) {
	err := run(c, dir)
	if err == nil {
		return
	}
	me := drv.Prop()
	if me == "" {
		me = "C01"
	}
	msg := err.Error()
	tags := msg[:strings.Index(msg, "]")+1]
	if strings.Contains(tags, me) {
		drv.Fail(t, "cli", "", c, "%s; case %s", msg, c.canon())
	}
	drv.Class("sibling-violation")
	drv.Note("sibling oracle disagreed: %s", clip(msg))
}

func TestCLI(t *testing.T) {
	root := t.TempDir()
	k := 0
	rapid.Check(t, func(rt *rapid.T) {
		c := genCase(rt)
		k++
		dir := filepath.Join(root, fmt.Sprint("c", k))
		defer os.RemoveAll(dir)
		record(c)
		drv.Sample(c)
		decide(rt, c, dir)
	})
}

func TestReplay(t *testing.T) {
	_, raw, ok := drv.ReplayFile()
	if !ok {
		t.Skip("no replay requested")
	}
	var c Case
	if err := json.Unmarshal(raw, &c); err != nil {
		t.Fatal(err)
	}
	decide(t, c, t.TempDir())
}
