// Package c08 decides C08: per-stage env / variables / dir overrides stay with their stage.
package c08

import (
	"encoding/json"
	"fmt"
	"io"
	"os"
	"path/filepath"
	"sort"
	"strings"
	"sync"
	"testing"
	"time"

	"github.com/sirupsen/logrus"
	"github.com/taskctl/taskctl/pkg/runner"
	"github.com/taskctl/taskctl/pkg/scheduler"
	"github.com/taskctl/taskctl/pkg/task"
	"github.com/taskctl/taskctl/pkg/variables"
	"pgregory.net/rapid"

	"verif/harness/cli"
	"verif/harness/drv"
	"verif/harness/gen"
	"verif/harness/hook"
)

func TestMain(m *testing.M) {
	logrus.SetOutput(io.Discard)
	drv.Main(m)
}

// The names that tasks and stages set include names the runner itself maintains (ARGS, TASK_NAME, Args): an
// override of one of those is an override like any other and must stay with its stage just the same.
var envKeys = []string{"SHARED", "KA", "KB", "KC", "ARGS", "TASK_NAME"}
var varKeys = []string{"vshared", "va", "vb", "Args"}

// what a real run sees for the runner-maintained names when neither the task nor the stage sets them
// (no arguments are passed, so ARGS and Args are empty = printed as unset)
var runnerEnv = map[string]string{"TASK_NAME": "shared"}

// Stage is one stage using the shared task.
type Stage struct {
	Name  string            `json:"name"`
	Env   map[string]string `json:"env,omitempty"`
	Vars  map[string]string `json:"vars,omitempty"`
	Dir   string            `json:"dir,omitempty"` // sub-directory name ("" = none), CLI only
	Deps  []string          `json:"deps,omitempty"`
	Delay int               `json:"delay"` // ms (in-process) / centiseconds*... see run
	// APIDir (part real): the stage object also carries a Dir of its own. Whether the scheduler honours it for stages
	// built through the API is not stated; what is stated is that it stays with this stage.
	APIDir bool `json:"api_dir,omitempty"`
	// Fail (parts api and real): this stage's execution ends in a failure that the stage allows. It blocks nothing, and
	// what the stage laid over the shared task must be gone afterwards just as after a success.
	Fail bool `json:"fail,omitempty"`
}

// Case: one task shared by the stages of one or two pipelines, then run directly.
type Case struct {
	TaskEnv  map[string]string `json:"task_env,omitempty"`
	TaskVars map[string]string `json:"task_vars,omitempty"`
	TaskDir  string            `json:"task_dir,omitempty"`
	P1       []Stage           `json:"p1"`
	P2       []Stage           `json:"p2,omitempty"`
	Direct   bool              `json:"direct"`
	Repeat   int               `json:"repeat"` // in-process: how often the whole sequence is run
	CLI      bool              `json:"cli,omitempty"`
	// cli: some of the names are already defined in the environment taskctl is started with; an override is still
	// an override of that stage only, everybody else sees the inherited value
	ParentEnv map[string]string `json:"parent_env,omitempty"`
	// Ctx (cli, real): the shared task runs in a named execution context with before and after commands
	Ctx  bool   `json:"ctx,omitempty"`
	Mode string `json:"mode,omitempty"` // "real": shared task object + real runner
}

func (c Case) canon() string { b, _ := json.Marshal(c); return string(b) }

func overlay(base, over map[string]string) map[string]string {
	o := map[string]string{}
	for k, v := range base {
		o[k] = v
	}
	for k, v := range over {
		o[k] = v
	}
	return o
}

func dump(m map[string]string, keys []string) string {
	var ks []string
	for _, k := range keys {
		v, ok := m[k]
		if !ok {
			v = "unset"
		}
		ks = append(ks, k+"="+v)
	}
	return strings.Join(ks, ",")
}

func nontrivial(c Case) bool {
	all := append(append([]Stage{}, c.P1...), c.P2...)
	if len(all) < 2 {
		return false
	}
	for _, k := range append(append([]string{}, envKeys...), varKeys...) {
		set, unset := false, false
		for _, s := range all {
			_, e := s.Env[k]
			_, v := s.Vars[k]
			if e || v {
				set = true
			} else {
				unset = true
			}
		}
		if set && unset {
			return true
		}
	}
	for _, s := range all {
		if s.Dir != "" {
			return true
		}
	}
	return false
}

func record(c Case) {
	arr := "parallel"
	deps := 0
	for _, s := range c.P1 {
		deps += len(s.Deps)
	}
	if deps > 0 && deps >= len(c.P1)-1 {
		arr = "chained-or-mixed"
	} else if deps > 0 {
		arr = "mixed"
	}
	cls := []string{fmt.Sprintf("stages=%d", len(c.P1)), "arrangement=" + arr}
	if len(c.P2) > 0 {
		cls = append(cls, "second-pipeline")
	}
	if c.Direct {
		cls = append(cls, "direct-run")
	}
	if c.CLI {
		cls = append(cls, "cli")
	}
	if len(c.ParentEnv) > 0 {
		cls = append(cls, "names inherited from the parent environment")
	}
	drv.Eval(cls...)
	if nontrivial(c) {
		drv.NonTrivial(c.canon())
	}
}

// ---- in-process: recording Runner

type seen struct{ env, vars map[string]string }

type rec struct {
	mu    sync.Mutex
	seen  map[string][]seen
	delay map[string]time.Duration
	fail  map[string]bool
}

func str(m map[string]interface{}) map[string]string {
	o := map[string]string{}
	for k, v := range m {
		o[k] = fmt.Sprint(v)
	}
	return o
}

func (r *rec) Run(t *task.Task) error {
	var env, vars map[string]string
	if t.Env != nil {
		env = str(t.Env.Map())
	}
	if t.Variables != nil {
		vars = str(t.Variables.Map())
	}
	id := vars["stage_id"]
	time.Sleep(r.delay[id])
	r.mu.Lock()
	r.seen[id] = append(r.seen[id], seen{env, vars})
	r.mu.Unlock()
	if r.fail[id] {
		return fmt.Errorf("stage %s fails (allowed)", id)
	}
	return nil
}
func (r *rec) Cancel() {}
func (r *rec) Finish() {}

func buildGraph(stages []Stage, base *task.Task) (*scheduler.ExecutionGraph, error) {
	var ss []*scheduler.Stage
	for _, s := range stages {
		vars := overlay(s.Vars, map[string]string{"stage_id": s.Name})
		ss = append(ss, &scheduler.Stage{Name: s.Name, Task: base, Env: variables.FromMap(s.Env),
			Variables: variables.FromMap(vars), DependsOn: s.Deps, AllowFailure: s.Fail})
	}
	return scheduler.NewExecutionGraph(ss...)
}

func runAPI(c Case) error {
	base := task.FromCommands("true")
	base.Name = "shared"
	taskVars := overlay(c.TaskVars, map[string]string{"stage_id": "direct"})
	base.Env = variables.FromMap(c.TaskEnv)
	base.Variables = variables.FromMap(taskVars)
	r := &rec{seen: map[string][]seen{}, delay: map[string]time.Duration{}, fail: map[string]bool{}}
	all := append(append([]Stage{}, c.P1...), c.P2...)
	for _, s := range all {
		r.delay[s.Name] = time.Duration(s.Delay) * time.Millisecond
		r.fail[s.Name] = s.Fail
	}
	rep := c.Repeat
	if rep < 1 {
		rep = 1
	}
	for i := 0; i < rep; i++ {
		for _, p := range [][]Stage{c.P1, c.P2} {
			if len(p) == 0 {
				continue
			}
			g, err := buildGraph(p, base)
			if err != nil {
				return fmt.Errorf("graph: %v", err)
			}
			s := scheduler.NewScheduler(r)
			hook.SetPause(s, time.Millisecond)
			if err := s.Schedule(g); err != nil {
				return fmt.Errorf("schedule: %v", err)
			}
		}
		if c.Direct {
			r.Run(base)
		}
	}
	wantRuns := rep
	for _, s := range all {
		we := overlay(c.TaskEnv, s.Env)
		wv := overlay(taskVars, overlay(s.Vars, map[string]string{"stage_id": s.Name}))
		got := r.seen[s.Name]
		if len(got) != wantRuns {
			return fmt.Errorf("stage %s was handed to the runner %d times with its own stage_id, want %d (an override leaked or was lost); seen ids %v", s.Name, len(got), wantRuns, ids(r.seen))
		}
		for _, g := range got {
			if dump(g.env, envKeys) != dump(we, envKeys) {
				return fmt.Errorf("stage %s env: saw {%s} want task+stage {%s}", s.Name, dump(g.env, envKeys), dump(we, envKeys))
			}
			if dump(g.vars, varKeys) != dump(wv, varKeys) {
				return fmt.Errorf("stage %s variables: saw {%s} want task+stage {%s}", s.Name, dump(g.vars, varKeys), dump(wv, varKeys))
			}
		}
	}
	if c.Direct {
		got := r.seen["direct"]
		if len(got) != rep {
			return fmt.Errorf("direct run seen %d times with the task's own stage_id, want %d; seen ids %v", len(got), rep, ids(r.seen))
		}
		for _, g := range got {
			if dump(g.env, envKeys) != dump(c.TaskEnv, envKeys) || dump(g.vars, varKeys) != dump(taskVars, varKeys) {
				return fmt.Errorf("direct run after the pipelines: saw env {%s} vars {%s}, the task's own are {%s} {%s}",
					dump(g.env, envKeys), dump(g.vars, varKeys), dump(c.TaskEnv, envKeys), dump(taskVars, varKeys))
			}
		}
	}
	var be, bv map[string]string
	if base.Env != nil {
		be = str(base.Env.Map())
	}
	if base.Variables != nil {
		bv = str(base.Variables.Map())
	}
	if dump(be, envKeys) != dump(c.TaskEnv, envKeys) || dump(bv, append(varKeys, "stage_id")) != dump(taskVars, append(varKeys, "stage_id")) {
		return fmt.Errorf("the task's own settings changed: env {%s} vars {%s}, were {%s} {%s}", dump(be, envKeys),
			dump(bv, append(varKeys, "stage_id")), dump(c.TaskEnv, envKeys), dump(taskVars, append(varKeys, "stage_id")))
	}
	return nil
}

func ids(m map[string][]seen) []string {
	var o []string
	for k, v := range m {
		o = append(o, fmt.Sprintf("%s x%d", k, len(v)))
	}
	sort.Strings(o)
	return o
}

// ---- CLI

func strMap(m map[string]string) gen.Map {
	out := gen.Map{}
	for _, k := range gen.SortedKeys(m) {
		out = out.Set(k, m[k])
	}
	return out
}

func runCLI(c Case, dir string) error {
	dir, _ = filepath.EvalSymlinks(dir)
	os.MkdirAll(filepath.Join(dir, "home"), 0o755)
	trace := filepath.Join(dir, "trace")
	var vparts []string
	for _, k := range varKeys {
		vparts = append(vparts, fmt.Sprintf(`%s={{ if index . "%s" }}{{ index . "%s" }}{{ else }}unset{{ end }}`, k, k, k))
	}
	var eparts []string
	for _, k := range envKeys {
		eparts = append(eparts, fmt.Sprintf(`%s=${%s:-unset}`, k, k))
	}
	cmd := fmt.Sprintf(`sleep 0.0{{ index . "delay" }}; printf '%%s\n' "ID={{ index . "stage_id" }} ENV:%s VARS:%s PWD=$(pwd -P)" >> %s`,
		strings.Join(eparts, ","), strings.Join(vparts, ","), trace)
	taskVars := overlay(c.TaskVars, map[string]string{"stage_id": "direct", "delay": "0"})
	tk := gen.Map{{K: "command", V: gen.List{cmd}}, {K: "variables", V: strMap(taskVars)}}
	if len(c.TaskEnv) > 0 {
		tk = tk.Set("env", strMap(c.TaskEnv))
	}
	mk := func(d string) string {
		p := filepath.Join(dir, d)
		os.MkdirAll(p, 0o755)
		return p
	}
	if c.TaskDir != "" {
		tk = tk.Set("dir", mk(c.TaskDir))
	}
	pipes := gen.Map{}
	for pi, p := range [][]Stage{c.P1, c.P2} {
		if len(p) == 0 {
			continue
		}
		var l gen.List
		for _, s := range p {
			st := gen.Map{{K: "name", V: s.Name}, {K: "task", V: "shared"}}
			vars := overlay(s.Vars, map[string]string{"stage_id": s.Name, "delay": fmt.Sprint(s.Delay % 10)})
			st = st.Set("variables", strMap(vars))
			if len(s.Env) > 0 {
				st = st.Set("env", strMap(s.Env))
			}
			if s.Dir != "" {
				st = st.Set("dir", mk(s.Dir))
			}
			if len(s.Deps) > 0 {
				var d gen.List
				for _, x := range s.Deps {
					d = append(d, x)
				}
				st = st.Set("depends_on", d)
			}
			l = append(l, st)
		}
		pipes = pipes.Set(fmt.Sprintf("p%d", pi+1), l)
	}
	if c.Ctx {
		tk = tk.Set("context", "cx")
	}
	cfg := gen.Map{{K: "tasks", V: gen.Map{{K: "shared", V: tk}}}, {K: "pipelines", V: pipes}}
	if c.Ctx {
		cfg = cfg.Set("contexts", gen.Map{{K: "cx", V: gen.Map{{K: "before", V: gen.List{"true"}}, {K: "after", V: gen.List{"true"}}}}})
	}
	os.WriteFile(filepath.Join(dir, "t.yaml"), []byte(gen.YAML(cfg)), 0o644)
	env := cli.Env{Bin: drv.Bin(), Dir: dir, Home: filepath.Join(dir, "home")}
	for _, k := range gen.SortedKeys(c.ParentEnv) {
		env.Extra = append(env.Extra, k+"="+c.ParentEnv[k])
	}
	args := []string{"-c", "t.yaml", "--raw", "p1"}
	if len(c.P2) > 0 {
		args = append(args, "p2")
	}
	if c.Direct {
		args = append(args, "shared")
	}
	r := env.Run(args...)
	if r.Exit != 0 || r.Crashed() {
		return fmt.Errorf("taskctl %v: exit %d timedOut=%v stderr %q", args, r.Exit, r.TimedOut, r.Stderr)
	}
	data, _ := os.ReadFile(trace)
	got := map[string][]string{}
	for _, l := range strings.Split(strings.TrimSpace(string(data)), "\n") {
		if f := strings.SplitN(l, " ", 2); len(f) == 2 {
			got[strings.TrimPrefix(f[0], "ID=")] = append(got[strings.TrimPrefix(f[0], "ID=")], f[1])
		}
	}
	taskDir := dir
	if c.TaskDir != "" {
		taskDir = filepath.Join(dir, c.TaskDir)
	}
	want := func(env, vars map[string]string, wd string) string {
		return fmt.Sprintf("ENV:%s VARS:%s PWD=%s", dump(env, envKeys), dump(vars, varKeys), wd)
	}
	all := append(append([]Stage{}, c.P1...), c.P2...)
	for _, s := range all {
		wd := taskDir
		if s.Dir != "" {
			wd = filepath.Join(dir, s.Dir)
		}
		w := want(overlay(overlay(overlay(runnerEnv, c.ParentEnv), c.TaskEnv), s.Env), overlay(c.TaskVars, s.Vars), wd)
		if g := got[s.Name]; len(g) != 1 || g[0] != w {
			return fmt.Errorf("stage %s printed %q, want [%q] (task settings overlaid by this stage's only); all lines: %q", s.Name, g, w, string(data))
		}
	}
	if c.Direct {
		w := want(overlay(overlay(runnerEnv, c.ParentEnv), c.TaskEnv), c.TaskVars, taskDir)
		if g := got["direct"]; len(g) != 1 || g[0] != w {
			return fmt.Errorf("direct run printed %q, want [%q] (the task's own settings); all lines: %q", g, w, string(data))
		}
	}
	return nil
}

// ---- real runner through the Go API: one *task.Task shared by all stages, its dir is a template over a
// variable that stages override ("{{ .wd }}")

func runReal(c Case, dir string) error {
	dir, _ = filepath.EvalSymlinks(dir)
	trace := filepath.Join(dir, "trace")
	var vparts, eparts []string
	for _, k := range varKeys {
		vparts = append(vparts, fmt.Sprintf(`%s={{ if index . "%s" }}{{ index . "%s" }}{{ else }}unset{{ end }}`, k, k, k))
	}
	for _, k := range envKeys {
		eparts = append(eparts, fmt.Sprintf(`%s=${%s:-unset}`, k, k))
	}
	// tmpl is a task variable whose value is itself a template over va: it must be rendered with the
	// values of the current execution every time
	cmd := fmt.Sprintf(`printf '%%s\n' "ID={{ index . "stage_id" }} ENV:%s VARS:%s TMPL={{ .tmpl }} PWD=$(pwd -P)" >> %s; exit {{ .fail_code }}`, strings.Join(eparts, ","), strings.Join(vparts, ","), trace)
	mk := func(d string) string {
		p := filepath.Join(dir, d)
		os.MkdirAll(p, 0o755)
		return p
	}
	base := task.FromCommands(cmd)
	base.Name = "shared"
	base.Dir = "{{ .wd }}"
	taskVars := overlay(c.TaskVars, map[string]string{"stage_id": "direct", "wd": mk("wd_task"), "fail_code": "0",
		"tmpl": `T({{ if index . "va" }}{{ index . "va" }}{{ else }}unset{{ end }})`})
	base.Env = variables.FromMap(c.TaskEnv)
	base.Variables = variables.FromMap(taskVars)
	var ropts []runner.Opts
	if c.Ctx {
		base.Context = "cx"
		ropts = append(ropts, runner.WithContexts(map[string]*runner.ExecutionContext{"cx": runner.NewExecutionContext(nil, "", variables.NewVariables(), nil, nil, []string{"true"}, []string{"true"})}))
	}
	r, err := runner.NewTaskRunner(ropts...)
	if err != nil {
		return err
	}
	r.Stdout, r.Stderr = io.Discard, io.Discard
	wantDir := map[string]string{"direct": filepath.Join(dir, "wd_task")}
	altDir := map[string]string{}
	build := func(stages []Stage) (*scheduler.ExecutionGraph, error) {
		var ss []*scheduler.Stage
		for _, st := range stages {
			vars := overlay(st.Vars, map[string]string{"stage_id": st.Name})
			wantDir[st.Name] = filepath.Join(dir, "wd_task")
			if st.Dir != "" {
				vars["wd"] = mk("wd_" + st.Name)
				wantDir[st.Name] = filepath.Join(dir, "wd_"+st.Name)
			}
			if st.Fail {
				vars["fail_code"] = "3"
			}
			sst := &scheduler.Stage{Name: st.Name, Task: base, Env: variables.FromMap(st.Env), Variables: variables.FromMap(vars), DependsOn: st.Deps, AllowFailure: st.Fail}
			if st.APIDir {
				sst.Dir = mk("api_" + st.Name)
				altDir[st.Name] = filepath.Join(dir, "api_"+st.Name)
			}
			ss = append(ss, sst)
		}
		return scheduler.NewExecutionGraph(ss...)
	}
	rep := c.Repeat
	if rep < 1 {
		rep = 1
	}
	for i := 0; i < rep; i++ {
		for _, p := range [][]Stage{c.P1, c.P2} {
			if len(p) == 0 {
				continue
			}
			g, err := build(p)
			if err != nil {
				return fmt.Errorf("graph: %v", err)
			}
			s := scheduler.NewScheduler(r)
			hook.SetPause(s, 2*time.Millisecond)
			if err := s.Schedule(g); err != nil {
				return fmt.Errorf("schedule: %v", err)
			}
		}
		if c.Direct {
			if err := r.Run(base); err != nil {
				return fmt.Errorf("direct run: %v", err)
			}
		}
	}
	data, _ := os.ReadFile(trace)
	got := map[string][]string{}
	for _, l := range strings.Split(strings.TrimSpace(string(data)), "\n") {
		if f := strings.SplitN(l, " ", 2); len(f) == 2 {
			got[strings.TrimPrefix(f[0], "ID=")] = append(got[strings.TrimPrefix(f[0], "ID=")], f[1])
		}
	}
	want := func(env, vars map[string]string, wd string) string {
		va, ok := vars["va"]
		if !ok {
			va = "unset"
		}
		return fmt.Sprintf("ENV:%s VARS:%s TMPL=T(%s) PWD=%s", dump(env, envKeys), dump(vars, varKeys), va, wd)
	}
	all := append(append([]Stage{}, c.P1...), c.P2...)
	for _, st := range all {
		w := want(overlay(overlay(runnerEnv, c.TaskEnv), st.Env), overlay(c.TaskVars, st.Vars), wantDir[st.Name])
		g := got[st.Name]
		if len(g) != rep {
			return fmt.Errorf("stage %s printed %d lines, want %d; all lines: %q", st.Name, len(g), rep, string(data))
		}
		w2 := w
		if a, ok := altDir[st.Name]; ok {
			w2 = want(overlay(overlay(runnerEnv, c.TaskEnv), st.Env), overlay(c.TaskVars, st.Vars), a)
		}
		for _, l := range g {
			if l != w && l != w2 {
				return fmt.Errorf("stage %s printed %q, want %q (the task's settings overlaid by this stage's only; the task dir is the template {{ .wd }}); all lines: %q", st.Name, l, w, string(data))
			}
		}
	}
	if c.Direct {
		w := want(overlay(runnerEnv, c.TaskEnv), c.TaskVars, wantDir["direct"])
		for _, l := range got["direct"] {
			if l != w {
				return fmt.Errorf("direct run printed %q, want %q (the task's own settings); all lines: %q", l, w, string(data))
			}
		}
		if len(got["direct"]) != rep {
			return fmt.Errorf("direct run printed %d lines, want %d; all lines: %q", len(got["direct"]), rep, string(data))
		}
	}
	if base.Dir != "{{ .wd }}" {
		return fmt.Errorf("the task's own dir changed from the template to %q", base.Dir)
	}
	return nil
}

// ---- generator

func genMap(rt *rapid.T, label, who string, keys []string) map[string]string {
	m := map[string]string{}
	for _, k := range keys {
		if rapid.IntRange(0, 2).Draw(rt, label+k) == 0 {
			m[k] = who + "_" + k
		}
	}
	return m
}

func genStages(rt *rapid.T, prefix string, min, max int, dirs bool) []Stage {
	n := rapid.IntRange(min, max).Draw(rt, prefix+"n")
	arrangement := rapid.IntRange(0, 2).Draw(rt, prefix+"arrangement") // 0 parallel, 1 chain, 2 mixed
	var out []Stage
	for i := 0; i < n; i++ {
		s := Stage{Name: fmt.Sprintf("%s%d", prefix, i), Delay: rapid.IntRange(0, 3).Draw(rt, "delay")}
		s.Env = genMap(rt, "senv", s.Name, envKeys)
		s.Vars = genMap(rt, "svars", s.Name, varKeys)
		if dirs && rapid.IntRange(0, 2).Draw(rt, "sdir") == 0 {
			s.Dir = "dir_" + s.Name
		}
		switch arrangement {
		case 1:
			if i > 0 {
				s.Deps = []string{fmt.Sprintf("%s%d", prefix, i-1)}
			}
		case 2:
			for j := 0; j < i; j++ {
				if rapid.IntRange(0, 2).Draw(rt, "dep") == 0 {
					s.Deps = append(s.Deps, fmt.Sprintf("%s%d", prefix, j))
				}
			}
		}
		out = append(out, s)
	}
	return out
}

func genCase(rt *rapid.T, cliMode bool) Case {
	c := Case{CLI: cliMode}
	c.TaskEnv = genMap(rt, "tenv", "task", envKeys)
	c.TaskVars = genMap(rt, "tvars", "task", varKeys)
	if cliMode && rapid.IntRange(0, 2).Draw(rt, "tdir") == 0 {
		c.TaskDir = "dir_task"
	}
	if cliMode && rapid.Bool().Draw(rt, "inherited") {
		c.ParentEnv = genMap(rt, "penv", "parent", envKeys[:4])
	}
	c.Ctx = cliMode && rapid.IntRange(0, 2).Draw(rt, "named-context") == 0
	c.P1 = genStages(rt, "s", 2, 6, cliMode)
	if rapid.Bool().Draw(rt, "second") {
		c.P2 = genStages(rt, "q", 1, 3, cliMode)
	}
	c.Direct = rapid.Bool().Draw(rt, "direct")
	c.Repeat = rapid.IntRange(1, 2).Draw(rt, "repeat")
	return c
}

// drawFails: a third of the cases let some stages end in an allowed failure.
func drawFails(rt *rapid.T, c *Case) {
	if rapid.IntRange(0, 2).Draw(rt, "with-failures") != 0 {
		return
	}
	for _, p := range [][]Stage{c.P1, c.P2} {
		for i := range p {
			p[i].Fail = rapid.IntRange(0, 2).Draw(rt, "fail") == 0
		}
	}
}

func TestAPI(t *testing.T) {
	rapid.Check(t, func(rt *rapid.T) {
		c := genCase(rt, false)
		drawFails(rt, &c)
		drv.Sample(c)
		record(c)
		if err := runAPI(c); err != nil {
			drv.Fail(rt, "api", "", c, "%v; case %s", err, c.canon())
		}
	})
}

// TestReal: the API arrangement (one shared *task.Task) executed by the real runner.
func TestReal(t *testing.T) {
	root := t.TempDir()
	k := 0
	rapid.Check(t, func(rt *rapid.T) {
		c := genCase(rt, true)
		c.CLI = false
		c.TaskDir = ""
		c.ParentEnv = nil
		c.Mode = "real"
		for i := range c.P1 {
			c.P1[i].APIDir = rapid.IntRange(0, 3).Draw(rt, "stage-object-dir") == 0
		}
		drawFails(rt, &c)
		drv.Sample(c)
		record(c)
		k++
		dir := filepath.Join(root, fmt.Sprint("r", k))
		os.MkdirAll(dir, 0o755)
		defer os.RemoveAll(dir)
		if err := runReal(c, dir); err != nil {
			drv.Fail(rt, "real", "", c, "%v; case %s", err, c.canon())
		}
	})
}

func TestCLI(t *testing.T) {
	root := t.TempDir()
	k := 0
	rapid.Check(t, func(rt *rapid.T) {
		c := genCase(rt, true)
		drv.Sample(c)
		record(c)
		k++
		dir := filepath.Join(root, fmt.Sprint("c", k))
		os.MkdirAll(dir, 0o755)
		defer os.RemoveAll(dir)
		if err := runCLI(c, dir); err != nil {
			drv.Fail(rt, "cli", "", c, "%v; case %s", err, c.canon())
		}
	})
}

func TestReplay(t *testing.T) {
	_, raw, ok := drv.ReplayFile()
	if !ok {
		t.Skip("no replay requested")
	}
	var c Case
	if err := json.Unmarshal(raw, &c); err != nil {
		t.Fatal(err)
	}
	var err error
	switch {
	case c.Mode == "real":
		err = runReal(c, t.TempDir())
	case c.CLI:
		err = runCLI(c, t.TempDir())
	default:
		err = runAPI(c)
	}
	if err != nil {
		drv.Fail(t, "replay", "", c, "%v", err)
	}
}
