// Package c18 decides C18: a configuration that loads has no dangling references.
package c18

import (
	"encoding/json"
	"fmt"
	"os"
	"path/filepath"
	"strings"
	"testing"
	"time"

	"pgregory.net/rapid"

	"verif/harness/cli"
	"verif/harness/drv"
	"verif/harness/gen"
)

func TestMain(m *testing.M) { drv.Main(m) }

// Stage of a generated pipeline.
type Stage struct {
	Name string   `json:"name"`
	Task string   `json:"task,omitempty"`
	Pipe string   `json:"pipeline,omitempty"`
	Deps []string `json:"deps,omitempty"`
}

// Case: a valid configuration (Kind "none") or the same with exactly one broken reference.
type Case struct {
	Tasks   []string  `json:"tasks"`
	Pipes   [][]Stage `json:"pipes"` // pipeline i is named p<i>
	Watcher bool      `json:"watcher"`
	WTask   string    `json:"watcher_task"`
	Kind    string    `json:"kind"`
	Pos     string    `json:"pos"` // position class of the break (first / middle / last stage, included pipeline ...)
	Format  string    `json:"format"`
}

func (c Case) canon() string { b, _ := json.Marshal(c); return string(b) }
func (c Case) broken() bool  { return c.Kind != "none" }

func (c Case) config() gen.Map {
	tasks := gen.Map{}
	for _, t := range c.Tasks {
		tasks = tasks.Set(t, gen.Map{{K: "command", V: gen.List{"true"}}})
	}
	pm := gen.Map{}
	for i, p := range c.Pipes {
		var l gen.List
		for _, st := range p {
			m := gen.Map{{K: "name", V: st.Name}}
			if st.Task != "" {
				m = m.Set("task", st.Task)
			}
			if st.Pipe != "" {
				m = m.Set("pipeline", st.Pipe)
			}
			if len(st.Deps) > 0 {
				dl := gen.List{}
				for _, d := range st.Deps {
					dl = append(dl, d)
				}
				m = m.Set("depends_on", dl)
			}
			l = append(l, m)
		}
		pm = pm.Set(fmt.Sprint("p", i), l)
	}
	cfg := gen.Map{{K: "tasks", V: tasks}, {K: "pipelines", V: pm}}
	if c.Watcher {
		cfg = cfg.Set("watchers", gen.Map{{K: "w", V: gen.Map{{K: "watch", V: gen.List{"*.md"}}, {K: "task", V: c.WTask}}}})
	}
	return cfg
}

func run(c Case, dir string) error {
	os.MkdirAll(filepath.Join(dir, "home"), 0o755)
	file := "c." + c.Format
	var txt string
	switch c.Format {
	case "json":
		txt = gen.JSON(c.config())
	case "toml":
		txt = gen.TOML(c.config())
	default:
		txt = gen.YAML(c.config())
	}
	os.WriteFile(filepath.Join(dir, file), []byte(txt), 0o644)
	os.WriteFile(filepath.Join(dir, "ok.yaml"), []byte("tasks:\n  ok:\n    command: \"true\"\n"), 0o644)
	env := cli.Env{Bin: drv.Bin(), Dir: dir, Home: filepath.Join(dir, "home"), Timeout: 10 * time.Second}
	r := env.Run("-c", file, "list")
	if r.Crashed() {
		return fmt.Errorf("`list` crashed or hung (break: %s): exit %d timedOut=%v stderr %q\n%s", c.Kind, r.Exit, r.TimedOut, clip(r.Stderr), txt)
	}
	v := env.Run("-c", "ok.yaml", "validate", file)
	if v.Crashed() {
		return fmt.Errorf("`validate` crashed or hung (break: %s): exit %d timedOut=%v stderr %q\n%s", c.Kind, v.Exit, v.TimedOut, clip(v.Stderr), txt)
	}
	valid := strings.Contains(v.Stdout, "file is valid")
	if c.broken() {
		if r.Exit == 0 {
			return fmt.Errorf("a configuration with a broken reference (%s at %s) was accepted by `list` (exit 0)\n%s", c.Kind, c.Pos, txt)
		}
		if valid {
			return fmt.Errorf("a configuration with a broken reference (%s at %s) is reported valid by `validate`\n%s", c.Kind, c.Pos, txt)
		}
		if strings.TrimSpace(r.Stderr) == "" {
			return fmt.Errorf("a broken configuration was rejected without an error message")
		}
		return nil
	}
	if r.Exit != 0 || !valid {
		return fmt.Errorf("a configuration without broken references was rejected: list exit %d stderr %q, validate %q\n%s", r.Exit, clip(r.Stderr), v.Stdout, txt)
	}
	for i := range c.Pipes {
		rr := env.Run("-c", file, "--raw", fmt.Sprint("p", i))
		if rr.TimedOut {
			env2 := env
			env2.Timeout = 40 * time.Second
			rr = env2.Run("-c", file, "--raw", fmt.Sprint("p", i))
		}
		if rr.Crashed() || rr.Exit != 0 || strings.Contains(rr.Stderr, "level=fatal") {
			return fmt.Errorf("running p%d of an accepted configuration: exit %d timedOut=%v stderr %q\n%s", i, rr.Exit, rr.TimedOut, clip(rr.Stderr), txt)
		}
	}
	return nil
}

func clip(s string) string {
	if len(s) > 700 {
		return s[:700] + "…"
	}
	return s
}

var kinds = []string{"none", "none", "task", "pipeline", "dep", "watcher", "dupname", "dupstage", "cycle1", "cycle2", "cycle3", "selfdep", "dep-other-pipeline", "dep-task-name", "dep-pipeline-name", "no-task-no-pipeline", "dep-blank", "dep-padded"}

// names of the stages that close an inclusion cycle: before and behind the other stage names in any ordering
var closers = []string{"next", "zz-next", "a-next", "Next"}

func genCase(rt *rapid.T) Case {
	c := Case{Format: rapid.SampledFrom([]string{"yaml", "yaml", "json", "toml"}).Draw(rt, "format")}
	nt := rapid.IntRange(1, 3).Draw(rt, "ntasks")
	for i := 0; i < nt; i++ {
		c.Tasks = append(c.Tasks, fmt.Sprint("t", i))
	}
	np := rapid.IntRange(1, 4).Draw(rt, "npipes")
	c.Pipes = make([][]Stage, np)
	// stage names are unique within a pipeline only: local names repeat the same names in every pipeline
	local := rapid.Bool().Draw(rt, "stage-names-repeat-across-pipelines")
	for i := 0; i < np; i++ {
		ns := rapid.IntRange(1, 4).Draw(rt, "nstages")
		for j := 0; j < ns; j++ {
			st := Stage{Name: fmt.Sprintf("s%d_%d", i, j)}
			if local {
				st.Name = fmt.Sprintf("st%d", j)
			}
			// acyclic inclusion: pipeline i may include pipeline i+1, also from several of its stages
			if i+1 < np && rapid.IntRange(0, 3).Draw(rt, "include") < 2-min(j, 1) {
				st.Pipe = fmt.Sprint("p", i+1)
			} else {
				st.Task = rapid.SampledFrom(c.Tasks).Draw(rt, "task")
			}
			for k := 0; k < j; k++ {
				if rapid.IntRange(0, 2).Draw(rt, "dep") == 0 {
					st.Deps = append(st.Deps, c.Pipes[i][k].Name)
				}
			}
			c.Pipes[i] = append(c.Pipes[i], st)
		}
	}
	c.Watcher = rapid.Bool().Draw(rt, "watcher")
	c.WTask = c.Tasks[0]
	c.Kind = rapid.SampledFrom(kinds).Draw(rt, "kind")
	pi := rapid.IntRange(0, np-1).Draw(rt, "pipe")
	si := rapid.IntRange(0, len(c.Pipes[pi])-1).Draw(rt, "stage")
	switch {
	case si == 0:
		c.Pos = "first-stage"
	case si == len(c.Pipes[pi])-1:
		c.Pos = "last-stage"
	default:
		c.Pos = "middle-stage"
	}
	if pi > 0 {
		c.Pos += "/later-pipeline"
	}
	st := &c.Pipes[pi][si]
	switch c.Kind {
	case "task":
		st.Task, st.Pipe = "no-such-task", ""
	case "pipeline":
		st.Task, st.Pipe = "", "no-such-pipeline"
	case "dep":
		st.Deps = append(st.Deps, "no-such-stage")
	case "dep-other-pipeline":
		// a stage name that exists, but only in another pipeline
		other := (pi + 1) % np
		cand := ""
		if other != pi {
			for _, o := range c.Pipes[other] {
				inOwn := false
				for _, m := range c.Pipes[pi] {
					if m.Name == o.Name {
						inOwn = true
					}
				}
				if !inOwn {
					cand = o.Name
				}
			}
		}
		if cand == "" {
			c.Kind = "dep"
			cand = "no-such-stage"
		}
		st.Deps = append(st.Deps, cand)
	case "dep-blank":
		// a depends_on entry that is empty or blank names no stage either
		st.Deps = append(st.Deps, rapid.SampledFrom([]string{"", " ", "\t", "  "}).Draw(rt, "blank"))
	case "dep-padded":
		// the name of an existing stage with blanks around it is another name
		base := c.Pipes[pi][(si+1)%len(c.Pipes[pi])].Name
		if len(c.Pipes[pi]) < 2 {
			c.Pipes[pi] = append(c.Pipes[pi], Stage{Name: "x", Task: c.Tasks[0]})
			base = "x"
			st = &c.Pipes[pi][si]
		}
		st.Deps = append(st.Deps, rapid.SampledFrom([]string{" %s", "%s ", "\t%s", " %s "}).Draw(rt, "padding"))
		st.Deps[len(st.Deps)-1] = fmt.Sprintf(st.Deps[len(st.Deps)-1], base)
	case "no-task-no-pipeline":
		// a stage that has a name but runs nothing
		st.Task, st.Pipe = "", ""
	case "dep-task-name":
		// the name of a task (that some stage runs under another stage name) is not a stage name
		st.Deps = append(st.Deps, c.Tasks[0])
	case "dep-pipeline-name":
		st.Deps = append(st.Deps, fmt.Sprint("p", pi))
	case "selfdep":
		st.Deps = append(st.Deps, st.Name)
	case "watcher":
		c.Watcher, c.WTask = true, "no-such-task"
		c.Pos = "watcher"
	case "dupname":
		if len(c.Pipes[pi]) < 2 {
			c.Pipes[pi] = append(c.Pipes[pi], Stage{Name: "x", Task: c.Tasks[0]})
		}
		c.Pipes[pi][len(c.Pipes[pi])-1].Name = c.Pipes[pi][0].Name
	case "dupstage":
		// the same stage written twice: same name, same task or pipeline; the copy may add a dependency
		cp := *st
		cp.Deps = nil
		if rapid.Bool().Draw(rt, "copy-depends") && len(c.Pipes[pi]) > 1 {
			other := c.Pipes[pi][(si+1)%len(c.Pipes[pi])].Name
			cp.Deps = []string{other}
		}
		c.Pipes[pi] = append(c.Pipes[pi], cp)
	case "cycle1":
		c.Pipes[pi] = append(c.Pipes[pi], Stage{Name: rapid.SampledFrom(closers).Draw(rt, "closing-stage-name"), Pipe: fmt.Sprint("p", pi)})
		c.Pos = "inclusion-cycle"
	case "cycle2", "cycle3":
		l := 2
		if c.Kind == "cycle3" {
			l = 3
		}
		if np < l {
			c.Kind = "none"
			break
		}
		c.Pos = "inclusion-cycle"
		closer := rapid.SampledFrom(closers).Draw(rt, "closing-stage-name")
		for i := 0; i < l; i++ {
			target := fmt.Sprint("p", (i+1)%l)
			already := false
			for _, s := range c.Pipes[i] {
				if s.Pipe == target {
					already = true
				}
			}
			if !already {
				// the including stages carry the same explicit name in every pipeline of the ring
				c.Pipes[i] = append(c.Pipes[i], Stage{Name: closer, Pipe: target})
			}
		}
	}
	if c.Kind == "none" {
		c.Pos = "-"
	}
	return c
}

func TestBreaks(t *testing.T) {
	root := t.TempDir()
	k := 0
	rapid.Check(t, func(rt *rapid.T) {
		c := genCase(rt)
		k++
		dir := filepath.Join(root, fmt.Sprint("c", k))
		defer os.RemoveAll(dir)
		drv.Eval("break="+c.Kind, "format="+c.Format)
		drv.NonTrivial(c.Kind + "/" + c.Pos + "/" + c.canon())
		drv.Class("break-position=" + c.Kind + "@" + c.Pos)
		drv.Sample(c)
		if err := run(c, dir); err != nil {
			drv.Fail(rt, "breaks", "", c, "%v", err)
		}
	})
}

func TestReplay(t *testing.T) {
	_, raw, ok := drv.ReplayFile()
	if !ok {
		t.Skip("no replay requested")
	}
	var c Case
	if err := json.Unmarshal(raw, &c); err != nil {
		t.Fatal(err)
	}
	if c.Format == "" {
		c.Format = "yaml"
	}
	if err := run(c, t.TempDir()); err != nil {
		drv.Fail(t, "replay", "", c, "%v", err)
	}
}
