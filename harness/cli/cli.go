// Package cli runs the taskctl binary in a controlled environment.
package cli

import (
	"bytes"
	"context"
	"os"
	"os/exec"
	"strings"
	"syscall"
	"time"
)

type Result struct {
	Exit     int
	Stdout   string
	Stderr   string
	TimedOut bool
	Wall     time.Duration
}

type Env struct {
	Bin     string
	Dir     string
	Home    string
	Extra   []string
	Timeout time.Duration
}

func (e Env) Run(args ...string) Result {
	to := e.Timeout
	if to == 0 {
		to = 15 * time.Second
	}
	ctx, cancel := context.WithTimeout(context.Background(), to)
	defer cancel()
	cmd := exec.CommandContext(ctx, e.Bin, args...)
	cmd.Dir = e.Dir
	cmd.Env = append([]string{"PATH=" + os.Getenv("PATH"), "HOME=" + e.Home}, e.Extra...)
	cmd.SysProcAttr = &syscall.SysProcAttr{Setpgid: true}
	cmd.Cancel = func() error { return syscall.Kill(-cmd.Process.Pid, syscall.SIGKILL) }
	cmd.WaitDelay = 2 * time.Second
	var so, se bytes.Buffer
	cmd.Stdout, cmd.Stderr = &so, &se
	start := time.Now()
	err := cmd.Run()
	r := Result{Stdout: so.String(), Stderr: se.String(), Wall: time.Since(start)}
	if ctx.Err() != nil {
		r.TimedOut = true
		r.Exit = -1
		return r
	}
	if err != nil {
		if ee, ok := err.(*exec.ExitError); ok {
			r.Exit = ee.ExitCode()
		} else {
			r.Exit = -2
		}
	}
	return r
}

// Crashed: the process hung, was ended by a signal, could not be started, or left the traces of a Go panic or a
// runtime fatal error. A plain exit status above 1 is not a crash by itself: no property fixes the status of a
// failed run beyond "non-zero" (a taskctl that passed a task's own exit status on would be within its rights).
func (r Result) Crashed() bool {
	if r.TimedOut || r.Exit < 0 {
		return true
	}
	for _, s := range []string{r.Stdout, r.Stderr} {
		if strings.Contains(s, "panic:") || strings.Contains(s, "fatal error:") || strings.Contains(s, "goroutine 1 [") {
			return true
		}
	}
	return false
}
