// Package c13 decides C13: a task timeout bounds every one of its commands.
package c13

import (
	"encoding/json"
	"fmt"
	"io"
	"os"
	"path/filepath"
	"strconv"
	"strings"
	"syscall"
	"testing"
	"time"

	"github.com/sirupsen/logrus"
	"github.com/taskctl/taskctl/pkg/runner"
	"github.com/taskctl/taskctl/pkg/scheduler"
	"github.com/taskctl/taskctl/pkg/task"
	"pgregory.net/rapid"

	"verif/harness/drv"
	"verif/harness/hook"
)

func TestMain(m *testing.M) {
	logrus.SetOutput(io.Discard)
	drv.Main(m)
}

// Cmd kinds: instant, part (0.6 x timeout), sleep (external sleep 30), busy (shell loop), ignore
// (child that ignores SIGINT: the interpreter kills it 2 s after the deadline).
type Cmd struct {
	Kind string `json:"kind"`
}

// Case is one task with a timeout.
type Case struct {
	TimeoutMs   int    `json:"timeout_ms"`
	Before      []Cmd  `json:"before,omitempty"`
	Cmds        []Cmd  `json:"cmds"`
	After       []Cmd  `json:"after,omitempty"`
	Allow       bool   `json:"allow"`
	NVar        int    `json:"nvar,omitempty"`        // variations of the task (0 = none)
	OverAt      int    `json:"over_at,omitempty"`     // the variation in which over-runners over-run (they are instant in the others)
	TimeoutUs   int    `json:"timeout_us,omitempty"`  // a timeout below a millisecond (overrides timeout_ms): an over-runner is still cut
	Interactive bool   `json:"interactive,omitempty"` // the task is interactive: its commands read the runner's stdin, an open pipe nobody writes to
	Via         string `json:"via,omitempty"`         // "" = TaskRunner.Run, "scheduler" = the task is the only stage of a pipeline
}

func (c Case) canon() string { b, _ := json.Marshal(c); return string(b) }

func over(k string) bool { return k == "sleep" || k == "busy" || k == "ignore" }

func text(c Cmd, id string, tmo int, log, pids string) string {
	return textVar(c, id, tmo, log, pids, -1)
}

// textVar: with overAt >= 0 the command is a command of a task with variations (V=v0, v1, ...): its
// markers carry $V and an over-runner over-runs in variation overAt only.
func textVar(c Cmd, id string, tmo int, log, pids string, overAt int) string {
	if overAt >= 0 {
		id += "@$V"
	}
	s := fmt.Sprintf("printf 'S:%%s\\n' \"%s\" >> %s; ", id, log)
	if overAt >= 0 && over(c.Kind) {
		s += fmt.Sprintf("if [ \"$V\" = \"v%d\" ]; then ", overAt)
		defer func() {}()
	}
	switch c.Kind {
	case "part":
		ms := tmo * 6 / 10
		s += fmt.Sprintf("sleep %d.%03d; ", ms/1000, ms%1000)
	case "ext":
		s += "/bin/sleep 0.02; /bin/echo ext > /dev/null; "
	case "sleep":
		s += fmt.Sprintf("sh -c 'echo $$ >> %s; exec sleep 30'; ", pids)
	case "busy":
		s += "while true; do :; done; "
	case "ignore":
		s += fmt.Sprintf("sh -c 'trap \"\" INT; echo $$ >> %s; exec sleep 30'; ", pids)
	}
	if overAt >= 0 && over(c.Kind) {
		s += "fi; "
	}
	return s + fmt.Sprintf("printf 'E:%%s\\n' \"%s\" >> %s", id, log)
}

type expect struct {
	tokens  []string
	failed  bool // Run returns an error
	errored bool
	// time the run may take at most
	budget    time.Duration
	graceKill bool
}

func model(c Case) expect {
	var e expect
	T := time.Duration(c.TimeoutMs) * time.Millisecond
	cost := func(k string) time.Duration {
		switch k {
		case "part":
			return T * 6 / 10
		case "ignore":
			e.graceKill = true
			return T + 2500*time.Millisecond
		case "sleep", "busy":
			return T
		}
		return 0
	}
	run := func(prefix string, cmds []Cmd) (stopped bool) {
		for i, cm := range cmds {
			id := fmt.Sprintf("%s%d", prefix, i)
			e.tokens = append(e.tokens, "S:"+id)
			e.budget += cost(cm.Kind)
			if over(cm.Kind) {
				return true
			}
			e.tokens = append(e.tokens, "E:"+id)
		}
		return false
	}
	if run("b", c.Before) {
		e.failed = true
		return e
	}
	if c.NVar > 0 {
		for v := 0; v < c.NVar; v++ {
			for i, cm := range c.Cmds {
				id := fmt.Sprintf("c%d@v%d", i, v)
				e.tokens = append(e.tokens, "S:"+id)
				if over(cm.Kind) && v == c.OverAt {
					e.budget += cost(cm.Kind)
					e.failed, e.errored = true, true
					return e
				}
				if !over(cm.Kind) {
					e.budget += cost(cm.Kind)
				}
				e.tokens = append(e.tokens, "E:"+id)
			}
		}
	} else if run("c", c.Cmds) {
		e.failed, e.errored = true, true
		return e
	}
	// an over-running after hook is merely cut short: the task's result stands; whether the hooks behind it
	// still run is not stated
	for i, cm := range c.After {
		id := fmt.Sprintf("a%d", i)
		e.tokens = append(e.tokens, "S:"+id)
		e.budget += cost(cm.Kind)
		if over(cm.Kind) {
			continue
		}
		e.tokens = append(e.tokens, "E:"+id)
	}
	return e
}

var seq int

func runCase(c Case, root string, scale int) (err error, timing bool) {
	seq++
	dir := filepath.Join(root, fmt.Sprint("c", seq))
	os.MkdirAll(dir, 0o755)
	defer os.RemoveAll(dir)
	log, pids := filepath.Join(dir, "log"), filepath.Join(dir, "pids")
	tk := task.NewTask()
	tk.Name = "t"
	T := time.Duration(c.TimeoutMs) * time.Millisecond
	if c.TimeoutUs > 0 {
		T = time.Duration(c.TimeoutUs) * time.Microsecond
	}
	tk.Timeout = &T
	tk.AllowFailure = c.Allow
	for i, cm := range c.Before {
		tk.Before = append(tk.Before, text(cm, fmt.Sprint("b", i), c.TimeoutMs, log, pids))
	}
	for i, cm := range c.Cmds {
		if c.NVar > 0 {
			tk.Commands = append(tk.Commands, textVar(cm, fmt.Sprint("c", i), c.TimeoutMs, log, pids, c.OverAt))
		} else {
			tk.Commands = append(tk.Commands, text(cm, fmt.Sprint("c", i), c.TimeoutMs, log, pids))
		}
	}
	for v := 0; v < c.NVar; v++ {
		tk.Variations = append(tk.Variations, map[string]string{"V": fmt.Sprintf("v%d", v)})
	}
	for i, cm := range c.After {
		tk.After = append(tk.After, text(cm, fmt.Sprint("a", i), c.TimeoutMs, log, pids))
	}
	r, rerr := runner.NewTaskRunner()
	if rerr != nil {
		return rerr, false
	}
	r.Stdout, r.Stderr = io.Discard, io.Discard
	if c.Interactive {
		pr, pw, perr := os.Pipe()
		if perr != nil {
			return perr, false
		}
		defer pw.Close()
		defer pr.Close()
		r.Stdin = pr
		tk.Interactive = true
	}
	e := model(c)
	bound := e.budget + time.Duration(scale)*1500*time.Millisecond
	done := make(chan error, 1)
	start := time.Now()
	run := func() error { return r.Run(tk) }
	if c.Via == "scheduler" {
		g, gerr := scheduler.NewExecutionGraph(&scheduler.Stage{Name: "t", Task: tk})
		if gerr != nil {
			return gerr, false
		}
		sd := scheduler.NewScheduler(r)
		hook.SetPause(sd, 2*time.Millisecond)
		run = func() error { return sd.Schedule(g) }
	}
	go func() { done <- run() }()
	var runErr error
	select {
	case runErr = <-done:
	case <-time.After(bound + 6*time.Second):
		killPids(pids)
		return fmt.Errorf("Run did not return %v after the last deadline had passed (timeout %v, expected at most %v)", 6*time.Second, T, bound), true
	}
	took := time.Since(start)
	defer killPids(pids)
	if took > bound {
		return fmt.Errorf("Run took %v; with timeout %v every command must be cut at its deadline: expected at most %v", took.Round(time.Millisecond), T, bound), true
	}
	b, _ := os.ReadFile(log)
	got := strings.Fields(string(b))
	// after hooks behind an over-running after hook may or may not run
	want := e.tokens
	ok := len(got) >= len(want)-optionalTail(c) && len(got) <= len(want)
	if ok {
		for i := range got {
			if got[i] != want[i] {
				ok = false
			}
		}
	}
	if c.TimeoutUs > 0 {
		// below a millisecond not even the start marker is certain to be written: nothing may complete, nothing may follow
		ok = true
		for _, g := range got {
			if strings.HasPrefix(g, "E:") || g != "S:c0" {
				ok = false
			}
		}
	}
	if !ok {
		// a command that takes real time (0.6 x timeout, an external command) and is found cut although it should have
		// finished: either a defect or a machine so loaded that it really did over-run. The retry decides: it runs the
		// case with three times the timeout (the command durations scale along)
		slow := len(got) < len(want) && len(got) > 0 && strings.HasPrefix(got[len(got)-1], "S:")
		for i := range got {
			if i < len(want) && got[i] != want[i] {
				slow = false
			}
		}
		return fmt.Errorf("markers %v, want %v: no command may start after the over-running one, commands within the timeout are unaffected", got, want), slow && scale == 1 && c.TimeoutUs == 0
	}
	if (runErr != nil) != e.failed {
		return fmt.Errorf("Run returned %v, want failed=%v (allow_failure=%v does not excuse a timeout)", runErr, e.failed, c.Allow), false
	}
	if tk.Timeout == nil || *tk.Timeout != T {
		return fmt.Errorf("the task's timeout setting changed during the run: %v, was %v", tk.Timeout, T), false
	}
	if tk.Errored != e.errored {
		return fmt.Errorf("Errored=%v, want %v", tk.Errored, e.errored), false
	}
	// the over-runner is gone
	for _, p := range strings.Fields(readFile(pids)) {
		pid, _ := strconv.Atoi(p)
		dl := time.Now().Add(time.Duration(scale) * 3 * time.Second)
		for syscall.Kill(pid, 0) == nil && time.Now().Before(dl) {
			time.Sleep(5 * time.Millisecond)
		}
		if syscall.Kill(pid, 0) == nil {
			return fmt.Errorf("the over-running command's process %d is still alive after Run returned", pid), true
		}
	}
	return nil, false
}

func optionalTail(c Case) int {
	n := 0
	seen := false
	for _, cm := range c.After {
		if seen {
			n += 2
			if over(cm.Kind) {
				n--
			}
		}
		if over(cm.Kind) {
			seen = true
		}
	}
	return n
}

func readFile(p string) string { b, _ := os.ReadFile(p); return string(b) }

func killPids(p string) {
	for _, f := range strings.Fields(readFile(p)) {
		if pid, err := strconv.Atoi(f); err == nil && pid > 1 {
			syscall.Kill(pid, syscall.SIGKILL)
		}
	}
}

func decide(t drv.TB, part string, c Case, root string) {
	record(c)
	err, timing := runCase(c, root, 1)
	if err != nil && timing {
		drv.Class("retry-with-5x-slack")
		c3 := c
		c3.TimeoutMs *= 3
		err2, _ := runCase(c3, root, 5)
		if err2 == nil {
			drv.Note("a time bound was breached once and held with 5x slack (machine load?): %v", err)
			return
		}
		err = err2
	}
	if err != nil {
		drv.Fail(t, part, "", c, "%v; case %s", err, c.canon())
	}
}

func record(c Case) {
	cls := []string{fmt.Sprintf("timeout=%dms", c.TimeoutMs/100*100)}
	nt := false
	for i, cm := range c.Cmds {
		if over(cm.Kind) {
			cls = append(cls, "over-runner="+cm.Kind, fmt.Sprintf("over-runner-position=%d", i))
			if i >= 1 || c.Allow {
				nt = true
			}
			break
		}
	}
	for _, cm := range append(append([]Cmd{}, c.Before...), c.After...) {
		if over(cm.Kind) {
			cls = append(cls, "over-runner-in-hook")
			nt = true
		}
	}
	parts := 0
	for _, cm := range c.Cmds {
		if cm.Kind == "part" {
			parts++
		}
	}
	if parts >= 2 {
		cls = append(cls, "several-commands-of-0.6-timeout")
		nt = true
	}
	for _, l := range [][]Cmd{c.Before, c.After} {
		parts = 0
		for _, cm := range l {
			if cm.Kind == "part" {
				parts++
			}
		}
		if parts >= 2 {
			cls = append(cls, "several-hook-commands-of-0.6-timeout")
			nt = true
		}
	}
	if c.Via != "" {
		cls = append(cls, "via="+c.Via)
	}
	if c.Interactive {
		cls = append(cls, "interactive-with-idle-stdin")
	}
	drv.Eval(cls...)
	if nt {
		drv.NonTrivial(c.canon())
	}
}

func genCmds(rt *rapid.T, label string, min, max int, overOK bool) []Cmd {
	n := rapid.IntRange(min, max).Draw(rt, label+"_n")
	out := make([]Cmd, n)
	for i := range out {
		kinds := []string{"instant", "instant", "part", "ext"}
		if overOK {
			kinds = append(kinds, "sleep", "busy", "ignore")
		}
		out[i] = Cmd{Kind: rapid.SampledFrom(kinds).Draw(rt, label+"_kind")}
	}
	return out
}

// TestRandom: timeouts 200..1000 ms, 1..4 commands, hooks, any kind at any position.
func TestRandom(t *testing.T) {
	root := t.TempDir()
	rapid.Check(t, func(rt *rapid.T) {
		c := Case{TimeoutMs: rapid.IntRange(2, 10).Draw(rt, "timeout") * 100, Allow: rapid.Bool().Draw(rt, "allow")}
		where := rapid.IntRange(0, 5).Draw(rt, "where") // where over-runners are allowed
		c.Before = genCmds(rt, "b", 0, 3, where == 0)
		c.Cmds = genCmds(rt, "c", 1, 4, where >= 2)
		c.After = genCmds(rt, "a", 0, 3, where == 1)
		if rapid.IntRange(0, 2).Draw(rt, "with-variations") == 0 {
			c.NVar = rapid.IntRange(2, 3).Draw(rt, "nvar")
			c.OverAt = rapid.IntRange(0, c.NVar-1).Draw(rt, "over-at")
		}
		if rapid.IntRange(0, 2).Draw(rt, "as-stage") == 0 {
			c.Via = "scheduler"
		}
		c.Interactive = rapid.IntRange(0, 3).Draw(rt, "interactive") == 0
		drv.Sample(c)
		decide(rt, "random", c, root)
	})
}

// TestMatrix: every over-runner shape at every position of 1..3 commands and in each hook, with and
// without allow_failure, plus sequences of 0.6-timeout commands.
func TestMatrix(t *testing.T) {
	root := t.TempDir()
	idx, nsh := drv.Shard()
	var cases []Case
	for _, kind := range []string{"sleep", "busy", "ignore"} {
		for n := 1; n <= 3; n++ {
			for pos := 0; pos < n; pos++ {
				for _, allow := range []bool{false, true} {
					c := Case{TimeoutMs: 300, Allow: allow}
					for i := 0; i < n; i++ {
						k := "instant"
						if i == pos {
							k = kind
						}
						c.Cmds = append(c.Cmds, Cmd{k})
					}
					cases = append(cases, c)
				}
			}
		}
		cases = append(cases, Case{TimeoutMs: 300, Before: []Cmd{{kind}}, Cmds: []Cmd{{"instant"}}})
		cases = append(cases, Case{TimeoutMs: 300, Cmds: []Cmd{{"instant"}}, After: []Cmd{{kind}}})
		cases = append(cases, Case{TimeoutMs: 300, Allow: true, Cmds: []Cmd{{"instant"}}, After: []Cmd{{kind}, {"instant"}}})
	}
	// variations: the over-runner over-runs only in the first / a later variation
	for _, kind := range []string{"sleep", "busy"} {
		for overAt := 0; overAt < 3; overAt++ {
			cases = append(cases, Case{TimeoutMs: 300, NVar: 3, OverAt: overAt, Cmds: []Cmd{{"instant"}, {kind}}})
		}
	}
	for n := 2; n <= 4; n++ {
		c := Case{TimeoutMs: 500}
		for i := 0; i < n; i++ {
			c.Cmds = append(c.Cmds, Cmd{"part"})
		}
		cases = append(cases, c)
	}
	// each hook command gets the full timeout as well
	for n := 2; n <= 3; n++ {
		b, a := Case{TimeoutMs: 500, Cmds: []Cmd{{"part"}}}, Case{TimeoutMs: 500, Cmds: []Cmd{{"part"}}}
		for i := 0; i < n; i++ {
			b.Before = append(b.Before, Cmd{"part"})
			a.After = append(a.After, Cmd{"part"})
		}
		cases = append(cases, b, a)
	}
	cases = append(cases, Case{TimeoutMs: 100, Cmds: []Cmd{{"instant"}, {"instant"}, {"instant"}}})
	// the same task as the only stage of a pipeline
	for _, kind := range []string{"sleep", "busy"} {
		cases = append(cases, Case{TimeoutMs: 300, Via: "scheduler", Cmds: []Cmd{{"instant"}, {kind}, {"instant"}}})
		cases = append(cases, Case{TimeoutMs: 300, Via: "scheduler", Allow: true, Cmds: []Cmd{{kind}}})
		cases = append(cases, Case{TimeoutMs: 300, Via: "scheduler", Before: []Cmd{{kind}}, Cmds: []Cmd{{"instant"}}})
	}
	cases = append(cases, Case{TimeoutMs: 500, Via: "scheduler", Cmds: []Cmd{{"part"}, {"part"}, {"part"}}})
	// timeouts below a millisecond (a bare number in a configuration is read as nanoseconds): the over-runner is cut
	for _, us := range []int{1, 500, 999} {
		cases = append(cases, Case{TimeoutMs: 1, TimeoutUs: us, Cmds: []Cmd{{"sleep"}}})
		cases = append(cases, Case{TimeoutMs: 1, TimeoutUs: us, Via: "scheduler", Cmds: []Cmd{{"busy"}}})
	}
	// interactive tasks (stdin is an idle pipe): external commands that finish early, an over-runner
	cases = append(cases, Case{TimeoutMs: 800, Interactive: true, Cmds: []Cmd{{"ext"}, {"ext"}, {"instant"}}})
	cases = append(cases, Case{TimeoutMs: 300, Interactive: true, Cmds: []Cmd{{"ext"}, {"sleep"}, {"instant"}}})
	for i, c := range cases {
		if i%nsh != idx {
			continue
		}
		drv.Sample(c)
		decide(t, "matrix", c, root)
	}
	drv.SetExhaustive()
}

func TestReplay(t *testing.T) {
	_, raw, ok := drv.ReplayFile()
	if !ok {
		t.Skip("no replay requested")
	}
	var c Case
	if err := json.Unmarshal(raw, &c); err != nil {
		t.Fatal(err)
	}
	decide(t, "replay", c, t.TempDir())
}
