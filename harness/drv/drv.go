// Package drv is the glue between the property packages and tools/driver.py:
// it counts what a run generated (evaluations, distinct non-trivial cases, class histogram,
// samples), writes the failing case to disk before the test fails, and loads a saved case for
// replay. Nothing here makes a random choice.
package drv

import (
	"encoding/json"
	"fmt"
	"hash/fnv"
	"os"
	"sort"
	"strconv"
	"sync"
	"testing"
	"time"
)

// TB is the part of testing.TB / rapid.T the helpers need.
type TB interface {
	Fatalf(format string, args ...any)
	Logf(format string, args ...any)
}

type stats struct {
	Part        string            `json:"part"`
	Shard       int               `json:"shard"`
	Evaluations int64             `json:"evaluations"`
	Nontrivial  []string          `json:"nontrivial"` // hex hashes of canonical encodings
	Classes     map[string]int64  `json:"classes"`
	Samples     []json.RawMessage `json:"samples"`
	Excluded    map[string]int64  `json:"excluded"`
	Known       map[string]string `json:"known"` // signature -> description of the case that failed
	Notes       []string          `json:"notes"`
	Exhaustive  bool              `json:"exhaustive"`
	WallS       float64           `json:"wall_s"`
}

var (
	mu      sync.Mutex
	st      = stats{Classes: map[string]int64{}, Excluded: map[string]int64{}, Known: map[string]string{}}
	nt      = map[uint64]struct{}{}
	started = time.Now()
	// MaxSamples bounds the samples kept per shard.
	MaxSamples = 6
)

// Shard returns (index, count) of this process among the parallel shards of one part.
func Shard() (int, int) {
	i, _ := strconv.Atoi(os.Getenv("VERIF_SHARD"))
	n, _ := strconv.Atoi(os.Getenv("VERIF_NSHARDS"))
	if n <= 0 {
		n = 1
	}
	return i, n
}

// Tier is "quick" or "thorough".
func Tier() string {
	if t := os.Getenv("VERIF_TIER"); t != "" {
		return t
	}
	return "quick"
}

// Thorough reports whether the thorough tier was requested.
func Thorough() bool { return Tier() == "thorough" }

// N returns the case budget the driver passed for plain (non-rapid) loops.
func N(def int) int {
	if v, err := strconv.Atoi(os.Getenv("VERIF_N")); err == nil && v > 0 {
		return v
	}
	return def
}

// Seed is VERIF_SEED (default 1).
func Seed() int64 {
	if v, err := strconv.ParseInt(os.Getenv("VERIF_SEED"), 10, 64); err == nil {
		return v
	}
	return 1
}

// Prop is the property id the driver is deciding (shared engines serve several).
func Prop() string { return os.Getenv("VERIF_PROP") }

// Bin is the path of the taskctl binary the driver built from /repo's working tree.
func Bin() string { return os.Getenv("TASKCTL_BIN") }

// Eval counts one evaluated case and its class labels.
func Eval(classes ...string) {
	mu.Lock()
	st.Evaluations++
	for _, c := range classes {
		st.Classes[c]++
	}
	mu.Unlock()
}

// Class adds class labels without counting an evaluation.
func Class(classes ...string) {
	mu.Lock()
	for _, c := range classes {
		st.Classes[c]++
	}
	mu.Unlock()
}

// NonTrivial records the canonical encoding of a case that is non-trivial by the property's rule.
func NonTrivial(canon string) {
	h := fnv.New64a()
	h.Write([]byte(canon))
	mu.Lock()
	nt[h.Sum64()] = struct{}{}
	mu.Unlock()
}

// Sample keeps a few cases for the evidence file: the first MaxSamples/2 and then sparse later ones.
func Sample(v any) {
	mu.Lock()
	defer mu.Unlock()
	n := st.Evaluations
	if len(st.Samples) >= MaxSamples {
		return
	}
	if len(st.Samples) >= MaxSamples/2 && n%97 != 0 {
		return
	}
	b, err := json.Marshal(v)
	if err != nil {
		return
	}
	if len(b) > 4000 {
		b, _ = json.Marshal(string(b[:4000]) + "…(truncated)")
	}
	st.Samples = append(st.Samples, b)
}

// Excluded counts draws the generator kept out of a known-finding region by construction.
func Excluded(why string, n int) {
	mu.Lock()
	st.Excluded[why] += int64(n)
	mu.Unlock()
}

// Known records that a probe inside a known-finding region still fails with signature sig.
func Known(sig, what string) {
	mu.Lock()
	if _, ok := st.Known[sig]; !ok {
		st.Known[sig] = what
	}
	mu.Unlock()
}

// Note adds a free-text line to the shard's report (shown by the driver, kept in evidence).
func Note(format string, args ...any) {
	mu.Lock()
	if len(st.Notes) < 20 {
		st.Notes = append(st.Notes, fmt.Sprintf(format, args...))
	}
	mu.Unlock()
}

// SetExhaustive marks this part as a complete enumeration of its sub-domain.
func SetExhaustive() { mu.Lock(); st.Exhaustive = true; mu.Unlock() }

type failure struct {
	Property string `json:"property"`
	Part     string `json:"part"`
	Sig      string `json:"sig"`
	Message  string `json:"message"`
	Case     any    `json:"case"`
}

// WriteFail stores the failing case; the last call of a run wins (rapid re-runs the shrunk case last).
func WriteFail(part, sig string, c any, msg string) {
	p := os.Getenv("VERIF_FAIL")
	if p == "" {
		return
	}
	b, err := json.MarshalIndent(failure{Property: Prop(), Part: part, Sig: sig, Message: msg, Case: c}, "", " ")
	if err != nil {
		b, _ = json.Marshal(failure{Property: Prop(), Part: part, Sig: sig, Message: msg + " (case not serialisable: " + err.Error() + ")"})
	}
	tmp := p + ".tmp"
	if os.WriteFile(tmp, b, 0o644) == nil {
		os.Rename(tmp, p)
	}
}

// Fail writes the failing case and fails the test.
func Fail(t TB, part, sig string, c any, format string, args ...any) {
	msg := fmt.Sprintf(format, args...)
	WriteFail(part, sig, c, msg)
	t.Fatalf("%s", msg)
}

// Pending stores the case that is about to be executed, so that a crash or a wedge of the test
// process still leaves a replayable file behind. Clear it with Done.
func Pending(part string, c any) {
	p := os.Getenv("VERIF_PENDING")
	if p == "" {
		return
	}
	b, _ := json.Marshal(failure{Property: Prop(), Part: part, Sig: "process-died", Message: "test process died or hung while executing this case", Case: c})
	os.WriteFile(p, b, 0o644)
}

// Done removes the pending-case file.
func Done() {
	if p := os.Getenv("VERIF_PENDING"); p != "" {
		os.Remove(p)
	}
}

// ReplayFile returns the saved failure to replay, if the driver asked for one.
func ReplayFile() (part string, raw json.RawMessage, ok bool) {
	p := os.Getenv("VERIF_REPLAY")
	if p == "" {
		return "", nil, false
	}
	b, err := os.ReadFile(p)
	if err != nil {
		panic(err)
	}
	var f struct {
		Part string          `json:"part"`
		Case json.RawMessage `json:"case"`
	}
	if err := json.Unmarshal(b, &f); err != nil {
		panic(err)
	}
	return f.Part, f.Case, true
}

// Flush writes the shard's counters.
func Flush(part string) {
	p := os.Getenv("VERIF_OUT")
	if p == "" {
		return
	}
	mu.Lock()
	defer mu.Unlock()
	st.Part = part
	st.Shard, _ = Shard()
	st.Nontrivial = st.Nontrivial[:0]
	for h := range nt {
		st.Nontrivial = append(st.Nontrivial, strconv.FormatUint(h, 16))
	}
	sort.Strings(st.Nontrivial)
	st.WallS = time.Since(started).Seconds()
	b, _ := json.Marshal(st)
	os.WriteFile(p, b, 0o644)
}

// Main runs the tests of a property package and flushes the counters.
func Main(m *testing.M) {
	code := m.Run()
	Flush(os.Getenv("VERIF_PART"))
	os.Exit(code)
}

// Part is the part name the driver asked for (one test function may serve several).
func Part() string { return os.Getenv("VERIF_PART") }
