package c14

import (
	"encoding/json"
	"fmt"
	"os"
	"os/exec"
	"path/filepath"
	"strings"
	"syscall"
	"testing"
	"time"

	"verif/harness/drv"
	"verif/harness/gen"
)

// WatchCase: a watcher whose task runs in a context with all four hook lists. The task runs once at start-up
// and once per file event: every one of those executions is bracketed by the context's before and after, up runs once.
type WatchCase struct {
	Events    int  `json:"events"`     // file events after the start-up run (1..3)
	TaskHooks bool `json:"task_hooks"` // the task has before/after hooks of its own as well
}

func (c WatchCase) canon() string { b, _ := json.Marshal(c); return "watch:" + string(b) }

func runWatch(c WatchCase, dir string, scale int) (err error, timing bool) {
	tree, home := filepath.Join(dir, "tree"), filepath.Join(dir, "home")
	os.MkdirAll(filepath.Join(tree, "src"), 0o755)
	os.MkdirAll(home, 0o755)
	os.WriteFile(filepath.Join(tree, "src", "a.txt"), []byte("x"), 0o644)
	trace := filepath.Join(dir, "trace")
	os.Remove(trace)
	tk := gen.Map{{K: "context", V: "c0"}, {K: "command", V: gen.List{tok(trace, "ts:0:0"), tok(trace, "te:0:0")}}}
	if c.TaskHooks {
		tk = tk.Set("before", gen.List{tok(trace, "tb:0:0")}).Set("after", gen.List{tok(trace, "ta:0:0")})
	}
	cfg := gen.Map{
		{K: "contexts", V: gen.Map{{K: "c0", V: gen.Map{{K: "up", V: gen.List{tok(trace, "up:0")}}, {K: "down", V: gen.List{tok(trace, "down:0")}},
			{K: "before", V: gen.List{tok(trace, "cb:0")}}, {K: "after", V: gen.List{tok(trace, "ca:0")}}}}}},
		{K: "tasks", V: gen.Map{{K: "t", V: tk}}},
		{K: "watchers", V: gen.Map{{K: "w", V: gen.Map{{K: "watch", V: gen.List{"src/*"}}, {K: "events", V: gen.List{"write"}}, {K: "task", V: "t"}}}}},
	}
	os.WriteFile(filepath.Join(tree, "w.yaml"), []byte(gen.YAML(cfg)), 0o644)
	cmd := exec.Command(drv.Bin(), "-c", "w.yaml", "watch", "w")
	cmd.Dir = tree
	cmd.Env = []string{"PATH=" + os.Getenv("PATH"), "HOME=" + home}
	ef, _ := os.Create(filepath.Join(home, "stderr.txt"))
	cmd.Stderr = ef
	cmd.SysProcAttr = &syscall.SysProcAttr{Setpgid: true}
	if e := cmd.Start(); e != nil {
		return nil, false
	}
	exited := make(chan struct{})
	go func() { cmd.Wait(); close(exited) }()
	defer func() { syscall.Kill(-cmd.Process.Pid, syscall.SIGKILL); <-exited; ef.Close() }()
	lines := func() []string { b, _ := os.ReadFile(trace); return strings.Fields(string(b)) }
	count := func(t string) int {
		n := 0
		for _, l := range lines() {
			if l == t {
				n++
			}
		}
		return n
	}
	stderr := func() string {
		b, _ := os.ReadFile(filepath.Join(home, "stderr.txt"))
		s := string(b)
		if len(s) > 500 {
			s = s[:500]
		}
		return s
	}
	// an execution is over when its last token is out; the context's after follows it
	waitRuns := func(n int) bool {
		dl := time.Now().Add(time.Duration(scale) * 4 * time.Second)
		for time.Now().Before(dl) {
			if count("te:0:0") >= n {
				time.Sleep(400 * time.Millisecond) // room for the task's and the context's after
				return true
			}
			select {
			case <-exited:
				return false
			default:
			}
			time.Sleep(30 * time.Millisecond)
		}
		return false
	}
	if !waitRuns(1) {
		return fmt.Errorf("the watcher did not run its task at start-up within %ds: trace %v stderr %s", 4*scale, lines(), stderr()), true
	}
	for e := 1; e <= c.Events; e++ {
		time.Sleep(1100 * time.Millisecond) // the watcher's polling period
		f, _ := os.OpenFile(filepath.Join(tree, "src", "a.txt"), os.O_WRONLY|os.O_APPEND, 0)
		f.Write([]byte("y"))
		f.Close()
		if !waitRuns(1 + e) {
			return fmt.Errorf("file event %d did not run the task within %ds: trace %v stderr %s", e, 4*scale, lines(), stderr()), true
		}
	}
	got := lines()
	// expected: up:0 once, then per execution cb:0 [tb] ts te [ta] ca:0 (more executions than events are tolerated: a
	// write may be reported twice), down only at the very end if at all
	if count("up:0") != 1 || got[0] != "up:0" {
		return fmt.Errorf("`up` must run exactly once, before everything else: trace %v", got), false
	}
	per := []string{"cb:0", "ts:0:0", "te:0:0", "ca:0"}
	if c.TaskHooks {
		per = []string{"cb:0", "tb:0:0", "ts:0:0", "te:0:0", "ta:0:0", "ca:0"}
	}
	rest := got[1:]
	for len(rest) > 0 && rest[len(rest)-1] == "down:0" {
		rest = rest[:len(rest)-1]
	}
	execs := 0
	for len(rest) >= len(per) {
		for i, w := range per {
			if rest[i] != w {
				return fmt.Errorf("execution %d of the watcher's task: every execution runs inside the context's before and after: want %v, trace %v", execs+1, per, got), false
			}
		}
		rest = rest[len(per):]
		execs++
	}
	if len(rest) > 0 {
		// an execution may be under way when the trace is read: it must be a prefix of the pattern
		for i, l := range rest {
			if l != per[i] {
				return fmt.Errorf("trailing tokens %v do not fit the pattern %v: trace %v", rest, per, got), false
			}
		}
	}
	if execs < 1+c.Events {
		return fmt.Errorf("%d complete executions, want at least %d: trace %v", execs, 1+c.Events, got), false
	}
	return nil, false
}

// TestWatch enumerates 1..3 events x task hooks on/off.
func TestWatch(t *testing.T) {
	root := t.TempDir()
	idx, nsh := drv.Shard()
	k := 0
	for ev := 1; ev <= 3; ev++ {
		for _, th := range []bool{false, true} {
			k++
			if k%nsh != idx {
				continue
			}
			c := WatchCase{Events: ev, TaskHooks: th}
			dir := filepath.Join(root, fmt.Sprint("w", k))
			drv.Eval("mode=watch", fmt.Sprintf("events=%d", ev))
			drv.NonTrivial(c.canon())
			drv.Sample(c)
			err, timing := runWatch(c, dir, 1)
			if err != nil && timing {
				drv.Class("retry-with-3x-bounds")
				os.RemoveAll(dir)
				if err2, _ := runWatch(c, dir, 3); err2 == nil {
					drv.Note("a watcher run was late once and in time on the retry: %v", err)
					err = nil
				} else {
					err = err2
				}
			}
			os.RemoveAll(dir)
			if err != nil {
				drv.Fail(t, "watch", "", c, "%v", err)
			}
		}
	}
	drv.SetExhaustive()
}
