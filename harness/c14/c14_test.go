// Package c14 decides C14: execution-context hooks run the right number of times, in the right order.
package c14

import (
	"encoding/json"
	"fmt"
	"io"
	"os"
	"path/filepath"
	"strings"
	"sync"
	"testing"
	"time"

	"github.com/sirupsen/logrus"
	"github.com/taskctl/taskctl/pkg/runner"
	"github.com/taskctl/taskctl/pkg/scheduler"
	"github.com/taskctl/taskctl/pkg/task"
	"github.com/taskctl/taskctl/pkg/variables"
	"pgregory.net/rapid"

	"verif/harness/cli"
	"verif/harness/drv"
	"verif/harness/gen"
	"verif/harness/hook"
)

func TestMain(m *testing.M) {
	logrus.SetOutput(io.Discard)
	drv.Main(m)
}

// T is one task.
type T struct {
	Ctx       int  `json:"ctx"`
	Before    bool `json:"before,omitempty"`
	After     bool `json:"after,omitempty"`
	Cond      bool `json:"cond,omitempty"`
	CondFalse bool `json:"cond_false,omitempty"`
	Fail      bool `json:"fail,omitempty"`
	SleepMs   int  `json:"sleep_ms,omitempty"`
	Long      bool `json:"long,omitempty"` // mode cancel: still running (sleep 5) when the runner is cancelled
}

// Case: tasks over contexts, and how they are started.
type Case struct {
	NCtx   int    `json:"nctx"`
	UpFail []bool `json:"up_fail"`
	UpPos  []int  `json:"up_fail_pos,omitempty"` // where the failing up command sits: 0 last, 1 first, 2 in the middle (a succeeding one follows)
	// Absent: per context, the hook lists that are not given at all (bit 0 up, 1 down, 2 before, 3 after)
	Absent []int `json:"absent,omitempty"`
	// DownFail: the context's down command fails (after having left its token): the other contexts' down commands are
	// due all the same
	DownFail []bool `json:"down_fail,omitempty"`
	Tasks    []T    `json:"tasks"`
	Mode     string `json:"mode"` // parallel | sequential | scheduler | cli
	// cli: how the tasks are spread over the targets of the command line, in order: a target is one task run
	// directly or a pipeline of N consecutive tasks chained by depends_on (empty = every task a direct target)
	Targets []Tg `json:"targets,omitempty"`
}

// Tg is one command-line target.
type Tg struct {
	N    int  `json:"n"`
	Pipe bool `json:"pipeline,omitempty"`
}

func (c Case) canon() string { b, _ := json.Marshal(c); return string(b) }

func tok(trace, s string) string { return fmt.Sprintf("printf '%s\\n' >> %s", s, trace) }

func (c Case) taskCommands(i int, trace string) (cmds, before, after []string, cond string) {
	t := c.Tasks[i]
	cmds = []string{tok(trace, fmt.Sprintf("ts:%d:%d", i, t.Ctx))}
	if t.Long {
		cmds = append(cmds, "sleep 5")
	}
	if t.SleepMs > 0 {
		cmds = append(cmds, fmt.Sprintf("sleep 0.%03d", t.SleepMs))
	}
	cmds = append(cmds, tok(trace, fmt.Sprintf("te:%d:%d", i, t.Ctx)))
	if t.Fail {
		cmds = append(cmds, "exit 3")
	}
	if t.Before {
		before = []string{tok(trace, fmt.Sprintf("tb:%d:%d", i, t.Ctx))}
	}
	if t.After {
		after = []string{tok(trace, fmt.Sprintf("ta:%d:%d", i, t.Ctx))}
	}
	if t.Cond {
		cond = "true"
		if t.CondFalse {
			cond = "exit 1"
		}
	}
	return
}

func (c Case) hooks(k int, trace string) (up, down, before, after []string) {
	up = []string{tok(trace, fmt.Sprintf("up:%d", k))}
	if c.UpFail[k] {
		pos := 0
		if k < len(c.UpPos) {
			pos = c.UpPos[k]
		}
		switch pos {
		case 1:
			up = append([]string{"exit 1"}, up...)
		case 2:
			up = append(up, "exit 1", "true")
		default:
			up = append(up, "exit 1")
		}
	}
	down, before, after = []string{tok(trace, fmt.Sprintf("down:%d", k))}, []string{tok(trace, fmt.Sprintf("cb:%d", k))}, []string{tok(trace, fmt.Sprintf("ca:%d", k))}
	if c.Mode == "cancel-up" {
		up = append([]string{"sleep 0.08"}, up...) // the runner is cancelled while this is running
	}
	if c.Mode == "cancel-before" {
		before = append(before, "sleep 0.08") // the runner is cancelled while a task is inside this hook
	}
	if c.absent(k, 0) {
		up = nil
	}
	if k < len(c.DownFail) && c.DownFail[k] {
		down = append(down, "exit 1")
	}
	if c.absent(k, 1) {
		down = nil
	}
	if c.absent(k, 2) {
		before = nil
	}
	if c.absent(k, 3) {
		after = nil
	}
	return up, down, before, after
}

func (c Case) absent(k, bit int) bool { return k < len(c.Absent) && c.Absent[k]&(1<<bit) != 0 }

// check is the oracle over the ordered trace. ran[i] tells whether task i was started at all
// (CLI: targets behind a failing target are not), errs (may be nil) are the Run results.
func (c Case) check(lines []string, ran []bool, errs []error, sequential bool) error {
	for k := 0; k < c.NCtx; k++ {
		ks := fmt.Sprint(k)
		var ups, downs, cbs, cas int
		upAt, downAt, firstOther, lastOther := -1, -1, -1, -1
		started := map[string]bool{} // tasks that have emitted a token
		ended := map[string]bool{}   // tasks whose last token was emitted
		execs, skipped := 0, 0
		lastTok := map[string]string{}
		for i, t := range c.Tasks {
			if t.Ctx != k || !ran[i] {
				continue
			}
			if t.CondFalse {
				skipped++
				continue
			}
			execs++
			id := fmt.Sprint(i)
			switch {
			case t.Long && c.Mode == "cancel":
				lastTok[id] = "ts" // interrupted inside its first long command
			case t.After && !t.Fail:
				lastTok[id] = "ta"
			default:
				lastTok[id] = "te"
			}
		}
		for i, l := range lines {
			p := strings.Split(l, ":")
			if p[len(p)-1] != ks {
				continue
			}
			switch p[0] {
			case "up":
				ups++
				upAt = i
			case "down":
				downs++
				downAt = i
			default:
				if firstOther < 0 {
					firstOther = i
				}
				lastOther = i
				switch p[0] {
				case "cb":
					cbs++
				case "ca":
					cas++
					if cas > len(ended)+skipped {
						return fmt.Errorf("context %d: its %d. `after` ran although only %d task executions had ended: %v", k, cas, len(ended), lines)
					}
				default:
					if c.UpFail[k] {
						return fmt.Errorf("context %d: `up` failed but a task using it ran a command (%s): %v", k, l, lines)
					}
					if !started[p[1]] {
						started[p[1]] = true
						if len(started) > cbs && !c.absent(k, 2) {
							return fmt.Errorf("context %d: task %s started (%s) but `before` had run only %d times for %d started tasks: %v", k, p[1], l, cbs, len(started), lines)
						}
					}
					if p[0] == lastTok[p[1]] {
						ended[p[1]] = true
					}
				}
			}
		}
		used := execs+skipped > 0
		if !used {
			if ups+downs+cbs+cas > 0 {
				return fmt.Errorf("context %d is not used by any task but its hooks ran: %v", k, lines)
			}
			continue
		}
		if c.absent(k, 0) {
			if ups != 0 {
				return fmt.Errorf("context %d has no `up` commands but an up token appeared: %v", k, lines)
			}
		} else if ups != 1 {
			return fmt.Errorf("context %d: `up` ran %d times, want exactly once: %v", k, ups, lines)
		}
		if firstOther >= 0 && upAt > firstOther {
			return fmt.Errorf("context %d: `up` completed after a hook or command of a task in that context: %v", k, lines)
		}
		if c.UpFail[k] {
			if downs > 1 {
				return fmt.Errorf("context %d: `down` ran %d times: %v", k, downs, lines)
			}
			if cbs+cas > 0 {
				return fmt.Errorf("context %d: `up` failed but before/after hooks ran: %v", k, lines)
			}
			for i, t := range c.Tasks {
				if errs != nil && t.Ctx == k && ran[i] && errs[i] == nil {
					return fmt.Errorf("context %d: `up` failed but task %d reported success", k, i)
				}
			}
			continue
		}
		if c.absent(k, 1) {
			if downs != 0 {
				return fmt.Errorf("context %d has no `down` commands but a down token appeared: %v", k, lines)
			}
		} else {
			if downs != 1 {
				return fmt.Errorf("context %d: `down` ran %d times, want exactly once at shutdown (the context was used; whether it has `up` commands does not matter): %v", k, downs, lines)
			}
			if downAt < lastOther || downAt < upAt {
				return fmt.Errorf("context %d: `down` ran before the last task of the context had finished: %v", k, lines)
			}
		}
		okB := c.absent(k, 2) && cbs == 0 || !c.absent(k, 2) && cbs >= execs && cbs <= execs+skipped
		okA := c.absent(k, 3) && cas == 0 || !c.absent(k, 3) && cas >= execs && cas <= execs+skipped
		if !okB || !okA || (!c.absent(k, 2) && !c.absent(k, 3) && cbs != cas) {
			return fmt.Errorf("context %d: %d task executions (+%d skipped by their condition) but `before` ran %d and `after` %d times (absent lists: %04b): %v", k, execs, skipped, cbs, cas, c.Absent, lines)
		}
	}
	for k := 0; k < c.NCtx; k++ {
		if c.absent(k, 2) || c.absent(k, 3) {
			sequential = false // the bracket check below needs both hooks of every context
		}
	}
	if sequential {
		// strictly: cb, the task's tokens, ca
		state := "idle"
		for _, l := range lines {
			p := strings.Split(l, ":")
			switch p[0] {
			case "up", "down":
			case "cb":
				if state != "idle" {
					return fmt.Errorf("sequential runs: context `before` inside another execution: %v", lines)
				}
				state = "open"
			case "ca":
				if state != "open" {
					return fmt.Errorf("sequential runs: context `after` without a preceding `before`: %v", lines)
				}
				state = "idle"
			default:
				if state != "open" {
					return fmt.Errorf("sequential runs: task token %s outside before/after: %v", l, lines)
				}
			}
		}
	}
	return nil
}

// checkEarly: the oracle of the modes that cancel the runner while a context is brought up or inside its before hook.
func (c Case) checkEarly(lines []string) error {
	for k := 0; k < c.NCtx; k++ {
		ks := fmt.Sprint(k)
		ntasks := 0
		for _, t := range c.Tasks {
			if t.Ctx == k {
				ntasks++
			}
		}
		var ups, downs, cbs, cas, others int
		for _, l := range lines {
			p := strings.Split(l, ":")
			if p[len(p)-1] != ks {
				continue
			}
			switch p[0] {
			case "up":
				ups++
				if others+downs > 0 {
					return fmt.Errorf("context %d: `up` completed after a hook or command of a task in that context: %v", k, lines)
				}
			case "down":
				downs++
			default:
				others++
				if downs > 0 {
					return fmt.Errorf("context %d: a hook or command (%s) ran after `down`: %v", k, l, lines)
				}
				if ups == 0 && !c.absent(k, 0) {
					return fmt.Errorf("context %d: %s ran before `up` had completed: %v", k, l, lines)
				}
				if c.UpFail[k] {
					return fmt.Errorf("context %d: `up` failed but %s ran: %v", k, l, lines)
				}
				switch p[0] {
				case "cb":
					cbs++
				case "ca":
					cas++
					if cas > cbs && !c.absent(k, 2) {
						return fmt.Errorf("context %d: `after` ran %d times when `before` had run %d times: %v", k, cas, cbs, lines)
					}
				}
			}
		}
		if ups > 1 || downs > 1 || cbs > ntasks || cas > ntasks {
			return fmt.Errorf("context %d (%d tasks): up ran %d, down %d, before %d, after %d times: %v", k, ntasks, ups, downs, cbs, cas, lines)
		}
		if !c.absent(k, 2) && !c.absent(k, 3) && cbs != cas {
			return fmt.Errorf("context %d, runner cancelled in phase %s: `before` ran %d times but `after` %d times - every execution that got its before hook gets its after hook, also when it fails: %v", k, c.Mode, cbs, cas, lines)
		}
	}
	return nil
}

func runAPI(c Case, trace string) error {
	os.Remove(trace)
	ctxs := map[string]*runner.ExecutionContext{}
	for k := 0; k < c.NCtx; k++ {
		up, down, before, after := c.hooks(k, trace)
		ctxs[fmt.Sprint("c", k)] = runner.NewExecutionContext(nil, "", variables.NewVariables(), up, down, before, after)
	}
	r, err := runner.NewTaskRunner(runner.WithContexts(ctxs))
	if err != nil {
		return err
	}
	r.Stdout, r.Stderr = io.Discard, io.Discard
	mk := func(i int) *task.Task {
		tk := task.NewTask()
		tk.Name = fmt.Sprint("t", i)
		tk.Context = fmt.Sprint("c", c.Tasks[i].Ctx)
		tk.Commands, tk.Before, tk.After, tk.Condition = c.taskCommands(i, trace)
		return tk
	}
	errs := make([]error, len(c.Tasks))
	ran := make([]bool, len(c.Tasks))
	for i := range ran {
		ran[i] = true
	}
	switch c.Mode {
	case "parallel":
		var wg sync.WaitGroup
		gate := make(chan struct{})
		for i := range c.Tasks {
			wg.Add(1)
			go func(i int) { defer wg.Done(); <-gate; errs[i] = r.Run(mk(i)) }(i)
		}
		close(gate)
		wg.Wait()
	case "cancel":
		// everything starts together; once the long task is inside its command and the others are through,
		// the runner is cancelled and then finished: after hooks and down must still run
		var wg sync.WaitGroup
		for i := range c.Tasks {
			wg.Add(1)
			go func(i int) { defer wg.Done(); errs[i] = r.Run(mk(i)) }(i)
		}
		deadline := time.Now().Add(3 * time.Second)
		for time.Now().Before(deadline) {
			b, _ := os.ReadFile(trace)
			all := true
			for i, t := range c.Tasks {
				want := fmt.Sprintf("te:%d:", i)
				if t.Long {
					want = fmt.Sprintf("ts:%d:", i)
				}
				if c.UpFail[t.Ctx] || t.CondFalse {
					continue
				}
				if !strings.Contains(string(b), want) {
					all = false
				}
			}
			if all {
				break
			}
			time.Sleep(5 * time.Millisecond)
		}
		time.Sleep(30 * time.Millisecond)
		r.Cancel()
		wg.Wait()
		errs = nil
	case "cancel-up", "cancel-before":
		// everything starts together; the runner is cancelled while the context is being brought up, or while a task
		// is inside the context's before hook, and then finished. Whatever the tasks still get to do: every before
		// hook that ran is paired with an after hook, up and down run at most once and bracket everything else
		var wg sync.WaitGroup
		for i := range c.Tasks {
			wg.Add(1)
			go func(i int) { defer wg.Done(); errs[i] = r.Run(mk(i)) }(i)
		}
		if c.Mode == "cancel-before" {
			deadline := time.Now().Add(150 * time.Millisecond)
			for time.Now().Before(deadline) {
				if b, _ := os.ReadFile(trace); strings.Contains(string(b), "cb:") {
					break
				}
				time.Sleep(2 * time.Millisecond)
			}
		}
		time.Sleep(25 * time.Millisecond)
		r.Cancel()
		wg.Wait()
		r.Finish()
		b, _ := os.ReadFile(trace)
		return c.checkEarly(strings.Fields(string(b)))
	case "scheduler":
		var ss []*scheduler.Stage
		tasks := make([]*task.Task, len(c.Tasks))
		for i := range c.Tasks {
			tasks[i] = mk(i)
			ss = append(ss, &scheduler.Stage{Name: tasks[i].Name, Task: tasks[i], AllowFailure: true})
		}
		g, err := scheduler.NewExecutionGraph(ss...)
		if err != nil {
			return err
		}
		s := scheduler.NewScheduler(r)
		hook.SetPause(s, 1_000_000)
		s.Schedule(g)
		errs = nil
	default:
		for i := range c.Tasks {
			errs[i] = r.Run(mk(i))
		}
	}
	r.Finish()
	b, _ := os.ReadFile(trace)
	return c.check(strings.Fields(string(b)), ran, errs, c.Mode == "sequential")
}

func strList(xs []string) gen.List {
	var l gen.List
	for _, x := range xs {
		l = append(l, x)
	}
	return l
}

func runCLI(c Case, dir string) error {
	os.MkdirAll(filepath.Join(dir, "home"), 0o755)
	trace := filepath.Join(dir, "trace")
	ctxs := gen.Map{}
	for k := 0; k < c.NCtx; k++ {
		up, down, before, after := c.hooks(k, trace)
		cm := gen.Map{}
		for _, h := range []struct {
			k string
			v []string
		}{{"up", up}, {"down", down}, {"before", before}, {"after", after}} {
			if h.v != nil {
				cm = cm.Set(h.k, strList(h.v))
			}
		}
		if len(cm) == 0 {
			cm = cm.Set("env", gen.Map{{K: "CTX", V: fmt.Sprint(k)}})
		}
		ctxs = ctxs.Set(fmt.Sprint("c", k), cm)
	}
	tasks := gen.Map{}
	var argv []string
	for i := range c.Tasks {
		cmds, before, after, cond := c.taskCommands(i, trace)
		tk := gen.Map{{K: "command", V: strList(cmds)}, {K: "context", V: fmt.Sprint("c", c.Tasks[i].Ctx)}}
		if before != nil {
			tk = tk.Set("before", strList(before))
		}
		if after != nil {
			tk = tk.Set("after", strList(after))
		}
		if cond != "" {
			tk = tk.Set("condition", cond)
		}
		tasks = tasks.Set(fmt.Sprint("t", i), tk)
	}
	targets := c.Targets
	if len(targets) == 0 {
		for range c.Tasks {
			targets = append(targets, Tg{N: 1})
		}
	}
	pipes := gen.Map{}
	at := 0
	for j, tg := range targets {
		if !tg.Pipe {
			argv = append(argv, fmt.Sprint("t", at))
			at++
			continue
		}
		var l gen.List
		for n := 0; n < tg.N; n++ {
			st := gen.Map{{K: "task", V: fmt.Sprint("t", at)}}
			if n > 0 {
				st = st.Set("depends_on", gen.List{fmt.Sprint("t", at-1)})
			}
			l = append(l, st)
			at++
		}
		pipes = pipes.Set(fmt.Sprint("p", j), l)
		argv = append(argv, fmt.Sprint("p", j))
	}
	cfg := gen.Map{{K: "contexts", V: ctxs}, {K: "tasks", V: tasks}}
	if len(pipes) > 0 {
		cfg = cfg.Set("pipelines", pipes)
	}
	os.WriteFile(filepath.Join(dir, "t.yaml"), []byte(gen.YAML(cfg)), 0o644)
	env := cli.Env{Bin: drv.Bin(), Dir: dir, Home: filepath.Join(dir, "home")}
	r := env.Run(append([]string{"-c", "t.yaml", "--raw"}, argv...)...)
	if r.Crashed() {
		return fmt.Errorf("taskctl %v crashed: exit %d stderr %q", argv, r.Exit, r.Stderr)
	}
	// targets behind the first failing one are not started (C07)
	ran := make([]bool, len(c.Tasks))
	for i, t := range c.Tasks {
		ran[i] = true
		if t.Fail && !t.CondFalse || c.UpFail[t.Ctx] {
			break
		}
	}
	b, _ := os.ReadFile(trace)
	return c.check(strings.Fields(string(b)), ran, nil, true)
}

func genCase(rt *rapid.T, mode string) Case {
	c := Case{NCtx: rapid.IntRange(1, 3).Draw(rt, "nctx"), Mode: mode}
	for k := 0; k < c.NCtx; k++ {
		c.UpFail = append(c.UpFail, rapid.IntRange(0, 5).Draw(rt, "upfail") == 0)
		c.UpPos = append(c.UpPos, rapid.IntRange(0, 2).Draw(rt, "upfailpos"))
		ab := 0
		if rapid.IntRange(0, 2).Draw(rt, "some-hook-lists-absent") == 0 {
			ab = rapid.IntRange(1, 15).Draw(rt, "absent")
		}
		if ab&1 != 0 {
			c.UpFail[k] = false // no up commands, nothing to fail
		}
		c.Absent = append(c.Absent, ab)
		c.DownFail = append(c.DownFail, rapid.IntRange(0, 3).Draw(rt, "down-fails") == 0)
	}
	max := 8
	if mode == "cli" {
		max = 4
	}
	n := rapid.IntRange(1, max).Draw(rt, "ntasks")
	for i := 0; i < n; i++ {
		t := T{Ctx: rapid.IntRange(0, c.NCtx-1).Draw(rt, "ctx"), Before: rapid.Bool().Draw(rt, "before"), After: rapid.Bool().Draw(rt, "after"),
			Cond: rapid.Bool().Draw(rt, "cond"), Fail: rapid.IntRange(0, 3).Draw(rt, "fail") == 0, SleepMs: rapid.SampledFrom([]int{0, 0, 2, 10}).Draw(rt, "sleep")}
		if t.Cond {
			t.CondFalse = rapid.IntRange(0, 3).Draw(rt, "condfalse") == 0
		}
		c.Tasks = append(c.Tasks, t)
	}
	if mode == "cli" && rapid.Bool().Draw(rt, "pipeline-targets") {
		for left := n; left > 0; {
			tg := Tg{N: rapid.IntRange(1, min(left, 3)).Draw(rt, "target-size")}
			tg.Pipe = tg.N > 1 || rapid.Bool().Draw(rt, "pipeline-of-one")
			c.Targets = append(c.Targets, tg)
			left -= tg.N
		}
	}
	if mode == "cancel" {
		c.Tasks[rapid.IntRange(0, len(c.Tasks)-1).Draw(rt, "long-task")].Long = true
	}
	return c
}

func record(c Case) {
	perCtx := map[int]int{}
	hookOrCond, upFail := false, false
	for _, t := range c.Tasks {
		perCtx[t.Ctx]++
		if t.Before || t.After || t.Cond {
			hookOrCond = true
		}
		if c.UpFail[t.Ctx] {
			upFail = true
		}
	}
	shared := false
	for _, n := range perCtx {
		if n >= 2 {
			shared = true
		}
	}
	cls := []string{"mode=" + c.Mode, fmt.Sprintf("tasks=%d", len(c.Tasks)), fmt.Sprintf("contexts=%d", c.NCtx)}
	if shared {
		cls = append(cls, "context-shared-by-several-tasks")
	}
	if upFail {
		cls = append(cls, "failing-up")
	}
	for _, a := range c.Absent {
		if a != 0 {
			cls = append(cls, "a context without some of its hook lists")
			break
		}
	}
	for j, tg := range c.Targets {
		if tg.Pipe && j < len(c.Targets)-1 {
			cls = append(cls, "cli: a pipeline target followed by further targets")
			break
		}
	}
	drv.Eval(cls...)
	if (shared && c.Mode != "sequential") || hookOrCond || upFail {
		drv.NonTrivial(c.canon())
	}
}

func TestAPI(t *testing.T) {
	root := t.TempDir()
	k := 0
	rapid.Check(t, func(rt *rapid.T) {
		c := genCase(rt, rapid.SampledFrom([]string{"parallel", "parallel", "sequential", "scheduler", "cancel", "cancel-up", "cancel-before"}).Draw(rt, "mode"))
		k++
		record(c)
		drv.Sample(c)
		if err := runAPI(c, filepath.Join(root, fmt.Sprint("trace", k))); err != nil {
			drv.Fail(rt, "api", "", c, "%v; case %s", err, c.canon())
		}
		os.Remove(filepath.Join(root, fmt.Sprint("trace", k)))
	})
}

func TestCLI(t *testing.T) {
	root := t.TempDir()
	k := 0
	rapid.Check(t, func(rt *rapid.T) {
		c := genCase(rt, "cli")
		k++
		dir := filepath.Join(root, fmt.Sprint("c", k))
		os.MkdirAll(dir, 0o755)
		defer os.RemoveAll(dir)
		record(c)
		drv.Sample(c)
		if err := runCLI(c, dir); err != nil {
			drv.Fail(rt, "cli", "", c, "%v; case %s", err, c.canon())
		}
	})
}

func TestReplay(t *testing.T) {
	part, raw, ok := drv.ReplayFile()
	if !ok {
		t.Skip("no replay requested")
	}
	if part == "watch" {
		var wc WatchCase
		if err := json.Unmarshal(raw, &wc); err != nil {
			t.Fatal(err)
		}
		dir := t.TempDir()
		err, timing := runWatch(wc, dir, 1)
		if err != nil && timing {
			os.RemoveAll(dir)
			err, _ = runWatch(wc, dir, 3)
		}
		if err != nil {
			drv.Fail(t, "watch", "", wc, "%v", err)
		}
		return
	}
	var c Case
	if err := json.Unmarshal(raw, &c); err != nil {
		t.Fatal(err)
	}
	var err error
	if c.Mode == "cli" {
		err = runCLI(c, t.TempDir())
	} else {
		err = runAPI(c, filepath.Join(t.TempDir(), "trace"))
	}
	if err != nil {
		drv.Fail(t, "replay", "", c, "%v", err)
	}
}
