// Package c15 decides C15: loading configuration never crashes.
package c15

import (
	"encoding/base64"
	"encoding/json"
	"fmt"
	"os"
	"path/filepath"
	"regexp"
	"sort"
	"strings"
	"testing"
	"time"

	"pgregory.net/rapid"

	"verif/harness/cli"
	"verif/harness/drv"
	"verif/harness/gen"
)

func TestMain(m *testing.M) { drv.Main(m) }

// Case is a directory of files (contents base64) and the commands run on the main file.
type Case struct {
	Files map[string]string `json:"files"` // relative path -> base64 content
	Main  string            `json:"main"`
	Show  []string          `json:"show"`
	Graph []string          `json:"graph"`
	// evidence only
	Mutations []string `json:"mutations"`
	Format    string   `json:"format"`
}

func (c Case) canon() string { b, _ := json.Marshal(c); return string(b) }

func (c Case) put(name string, content []byte) {
	c.Files[name] = base64.StdEncoding.EncodeToString(content)
}

func (c Case) materialise(dir string) error {
	for name, b64 := range c.Files {
		b, err := base64.StdEncoding.DecodeString(b64)
		if err != nil {
			return err
		}
		p := filepath.Join(dir, name)
		os.MkdirAll(filepath.Dir(p), 0o755)
		if err := os.WriteFile(p, b, 0o644); err != nil {
			return err
		}
	}
	return os.MkdirAll(filepath.Join(dir, "home"), 0o755)
}

type verdict struct {
	accepted bool   // `list` exited 0
	reason   string // why not (class label)
}

var reasonRe = regexp.MustCompile(`msg="(?:invalid config; )?([^"\\]{0,28})`)

// run executes list / show / graph / validate and applies the oracle: every process ends within 10 s
// with exit status 0 or 1 and without a Go crash report on either stream.
func run(c Case, dir string) (verdict, error) {
	var v verdict
	if err := c.materialise(dir); err != nil {
		return v, nil
	}
	env := cli.Env{Bin: drv.Bin(), Dir: dir, Home: filepath.Join(dir, "home"), Timeout: 10 * time.Second}
	check := func(args ...string) (cli.Result, error) {
		r := env.Run(args...)
		if r.TimedOut {
			// one retry with a larger bound separates a hang from a loaded machine
			env2 := env
			env2.Timeout = 40 * time.Second
			r = env2.Run(args...)
			if r.TimedOut {
				return r, fmt.Errorf("`taskctl %s` did not end within 40s", strings.Join(args, " "))
			}
		}
		if r.Crashed() {
			return r, fmt.Errorf("`taskctl %s` crashed: exit %d, stderr %s", strings.Join(args, " "), r.Exit, clip(r.Stderr))
		}
		return r, nil
	}
	r, err := check("-c", c.Main, "list")
	if err != nil {
		return v, err
	}
	v.accepted = r.Exit == 0
	if m := reasonRe.FindStringSubmatch(r.Stderr); m != nil && !v.accepted {
		v.reason = strings.Map(func(r rune) rune {
			if r >= '0' && r <= '9' {
				return -1
			}
			return r
		}, m[1])
	}
	if _, err := check("-c", c.Main, "validate", c.Main); err != nil {
		return v, err
	}
	if !v.accepted {
		return v, nil
	}
	for _, n := range c.Show {
		if _, err := check("-c", c.Main, "show", n); err != nil {
			return v, err
		}
	}
	for _, n := range c.Graph {
		if _, err := check("-c", c.Main, "graph", n); err != nil {
			return v, err
		}
	}
	return v, nil
}

func clip(s string) string {
	if i := strings.Index(s, "panic:"); i >= 0 {
		s = s[i:]
	} else if i := strings.Index(s, "fatal error:"); i >= 0 {
		s = s[i:]
	}
	if len(s) > 900 {
		s = s[:900] + "…"
	}
	return s
}

// ---- loose, schema-shaped generator (values of the right and of the wrong kind)

func strs(rt *rapid.T) gen.Node {
	return rapid.SampledFrom([]string{"a", "b", "echo hi", "true", "x y", "", "1s", "10", "t1", "p1", "cx", "*.go", "{{ .x }}", "{{", "é", "-", " ", "\t", "  \n", "/bin/sh -c"}).Draw(rt, "str")
}

func strOrList(rt *rapid.T) gen.Node {
	if rapid.Bool().Draw(rt, "scalar") {
		return strs(rt)
	}
	n := rapid.IntRange(0, 3).Draw(rt, "n")
	l := gen.List{}
	for i := 0; i < n; i++ {
		l = append(l, strs(rt))
	}
	return l
}

func smap(rt *rapid.T) gen.Node {
	m := gen.Map{}
	n := rapid.IntRange(0, 3).Draw(rt, "n")
	for i := 0; i < n; i++ {
		m = m.Set(rapid.SampledFrom([]string{"A", "B", "C", "D"}).Draw(rt, "k"), strs(rt))
	}
	return m
}

func maybe(rt *rapid.T, m gen.Map, key string, p int, g func() gen.Node) gen.Map {
	if rapid.IntRange(0, 9).Draw(rt, "has_"+key) < p {
		return m.Set(key, g())
	}
	return m
}

// hostility of the current case: 0 = references resolve and values have the right kind (mutations
// do the damage), 1 = a few wrong values, 2 = anything goes
var hostility int

// refOf picks an existing name, or (depending on hostility) a missing one.
func refOf(rt *rapid.T, label string, names []string) string {
	if len(names) == 0 || rapid.IntRange(0, 7).Draw(rt, label+"_missing") < hostility*2-1 {
		return "nope"
	}
	return rapid.SampledFrom(names).Draw(rt, label)
}

func genTask(rt *rapid.T) gen.Map {
	d := gen.Map{{K: "command", V: strOrList(rt)}}
	d = maybe(rt, d, "description", 3, func() gen.Node { return strs(rt) })
	d = maybe(rt, d, "condition", 3, func() gen.Node { return strs(rt) })
	d = maybe(rt, d, "before", 3, func() gen.Node { return strOrList(rt) })
	d = maybe(rt, d, "after", 3, func() gen.Node { return strOrList(rt) })
	d = maybe(rt, d, "context", 3, func() gen.Node { return rapid.SampledFrom([]string{"cx", "nope", ""}).Draw(rt, "ctx") })
	d = maybe(rt, d, "variations", 3, func() gen.Node {
		l := gen.List{}
		for i := rapid.IntRange(0, 2).Draw(rt, "nv"); i > 0; i-- {
			l = append(l, smap(rt))
		}
		return l
	})
	d = maybe(rt, d, "dir", 3, func() gen.Node { return strs(rt) })
	d = maybe(rt, d, "timeout", 3, func() gen.Node {
		return rapid.SampledFrom([]gen.Node{"1s", "100ms", int64(1000), "x", "-5s", 1.5}[:3+hostility+hostility/2]).Draw(rt, "timeout")
	})
	d = maybe(rt, d, "allow_failure", 3, func() gen.Node {
		return rapid.SampledFrom([]gen.Node{true, false, "true", int64(1), "maybe"}[:3+hostility]).Draw(rt, "af")
	})
	d = maybe(rt, d, "interactive", 1, func() gen.Node { return false })
	d = maybe(rt, d, "exportAs", 2, func() gen.Node { return strs(rt) })
	d = maybe(rt, d, "env", 3, func() gen.Node { return smap(rt) })
	d = maybe(rt, d, "env_file", 3, func() gen.Node {
		return rapid.SampledFrom([]string{"envgen", "envf", "envgen", "", "envbad", "missing", "impdir"}[:3+2*hostility]).Draw(rt, "env_file")
	})
	d = maybe(rt, d, "variables", 3, func() gen.Node { return smap(rt) })
	d = maybe(rt, d, "name", 2, func() gen.Node { return strs(rt) })
	return d
}

// genStage: prev are the effective names of the stages before it in the same pipeline; returns the stage and
// its own effective name (explicit name, else the task's or pipeline's name).
func genStage(rt *rapid.T, tasks, pipes, prev []string) (gen.Map, string) {
	d := gen.Map{}
	if rapid.IntRange(0, 9).Draw(rt, "stage_kind") < 8 {
		d = d.Set("task", refOf(rt, "task", tasks))
	} else {
		d = d.Set("pipeline", refOf(rt, "pipeline", pipes))
	}
	d = maybe(rt, d, "name", 3+3*(2-hostility), func() gen.Node {
		if hostility == 0 {
			return fmt.Sprintf("st%d", rapid.IntRange(0, 5).Draw(rt, "stname"))
		}
		return strs(rt)
	})
	d = maybe(rt, d, "condition", 2, func() gen.Node { return strs(rt) })
	// dependency edges that resolve: a subset of the stages declared before this one
	if len(prev) > 0 && rapid.IntRange(0, 9).Draw(rt, "valid_deps") < 5 {
		dl := gen.List{}
		for _, p := range prev {
			if rapid.Bool().Draw(rt, "dep") {
				dl = append(dl, p)
			}
		}
		if len(dl) == 1 && rapid.Bool().Draw(rt, "dep_scalar") {
			d = d.Set("depends_on", dl[0])
		} else if len(dl) > 0 {
			d = d.Set("depends_on", dl)
		}
	} else if hostility > 0 {
		d = maybe(rt, d, "depends_on", 3, func() gen.Node { return strOrList(rt) })
	}
	d = maybe(rt, d, "allow_failure", 2, func() gen.Node { return true })
	d = maybe(rt, d, "dir", 3, func() gen.Node { return strs(rt) })
	d = maybe(rt, d, "env", 3, func() gen.Node { return smap(rt) })
	d = maybe(rt, d, "variables", 3, func() gen.Node { return smap(rt) })
	eff := ""
	for _, k := range []string{"name", "task", "pipeline"} {
		if v, ok := d.Get(k); ok {
			if sv, isStr := v.(string); isStr && sv != "" {
				eff = sv
				break
			}
		}
	}
	return d, eff
}

func genContext(rt *rapid.T) gen.Map {
	d := gen.Map{}
	d = maybe(rt, d, "dir", 4, func() gen.Node { return strs(rt) })
	for _, h := range []string{"up", "down", "before", "after"} {
		d = maybe(rt, d, h, 4, func() gen.Node { return strOrList(rt) })
	}
	d = maybe(rt, d, "env", 4, func() gen.Node { return smap(rt) })
	d = maybe(rt, d, "variables", 4, func() gen.Node { return smap(rt) })
	d = maybe(rt, d, "executable", 4, func() gen.Node {
		if hostility > 0 && rapid.Bool().Draw(rt, "odd_executable") {
			// shapes a user might write instead of the bin/args map
			return rapid.SampledFrom([]gen.Node{strs(rt), gen.List{"/bin/sh", "-c"}, gen.Map{{K: "args", V: gen.List{"-c"}}},
				gen.Map{{K: "bin", V: strs(rt)}, {K: "args", V: strs(rt)}}, gen.Map{{K: "bin", V: gen.List{"/bin/sh"}}}}).Draw(rt, "executable")
		}
		return gen.Map{{K: "bin", V: "/bin/sh"}, {K: "args", V: gen.List{"-c"}}}
	})
	d = maybe(rt, d, "quote", 4, func() gen.Node { return "'" })
	return d
}

func genConfig(rt *rapid.T, imports []gen.Node) (gen.Map, []string, []string) {
	var tasks, pipes []string
	for i := rapid.IntRange(0, 3).Draw(rt, "ntasks"); i > 0; i-- {
		tasks = append(tasks, fmt.Sprintf("t%d", len(tasks)))
	}
	for i := rapid.IntRange(0, 2).Draw(rt, "npipes"); i > 0; i-- {
		pipes = append(pipes, fmt.Sprintf("p%d", len(pipes)))
	}
	c := gen.Map{}
	if len(tasks) > 0 || rapid.Bool().Draw(rt, "empty_tasks") {
		tm := gen.Map{}
		for _, t := range tasks {
			tm = tm.Set(t, genTask(rt))
		}
		c = c.Set("tasks", tm)
	}
	if len(pipes) > 0 {
		pm := gen.Map{}
		for _, p := range pipes {
			l := gen.List{}
			var prev []string
			for i := rapid.IntRange(0, 3).Draw(rt, "nstages"); i > 0; i-- {
				st, eff := genStage(rt, tasks, pipes, prev)
				l = append(l, st)
				if eff != "" {
					prev = append(prev, eff)
				}
			}
			pm = pm.Set(p, l)
		}
		c = c.Set("pipelines", pm)
	}
	c = maybe(rt, c, "contexts", 4, func() gen.Node { return gen.Map{{K: "cx", V: genContext(rt)}} })
	if len(tasks) > 0 {
		c = maybe(rt, c, "watchers", 2, func() gen.Node {
			return gen.Map{{K: "w", V: gen.Map{{K: "watch", V: strOrList(rt)}, {K: "exclude", V: strOrList(rt)}, {K: "events", V: strOrList(rt)},
				{K: "task", V: refOf(rt, "wtask", tasks)}, {K: "variables", V: smap(rt)}}}}
		})
	}
	c = maybe(rt, c, "variables", 3, func() gen.Node { return smap(rt) })
	c = maybe(rt, c, "import", 4, func() gen.Node {
		if hostility == 0 {
			return rapid.SampledFrom(imports[:1]).Draw(rt, "import")
		}
		return rapid.SampledFrom(imports).Draw(rt, "import")
	})
	for _, k := range []string{"debug", "output", "summary", "dryrun", "dry_run"}[:3+hostility] {
		c = maybe(rt, c, k, 1, func() gen.Node {
			if hostility == 0 {
				if k == "output" {
					return rapid.SampledFrom([]gen.Node{"raw", "prefixed", "cockpit"}).Draw(rt, "flag")
				}
				return rapid.Bool().Draw(rt, "flag")
			}
			return rapid.SampledFrom([]gen.Node{true, "raw", int64(1), "cockpit", "nonsense"}).Draw(rt, "flag")
		})
	}
	return c, tasks, pipes
}

// ---- structured mutation of the tree

var wrong = []gen.Node{nil, int64(1), "s", gen.List{}, gen.Map{}, gen.List{int64(1)}, gen.Map{{K: "k", V: int64(1)}}, true, gen.List{nil},
	gen.Map{{K: "k", V: nil}}, gen.List{gen.List{}}, 1.5, int64(-1), "", gen.Map{{K: "0", V: "x"}}, " ", "\t", "a b"}

type path []any

func paths(n gen.Node, p path, out *[]path) {
	*out = append(*out, append(path{}, p...))
	switch v := n.(type) {
	case gen.Map:
		for _, e := range v {
			paths(e.V, append(p, e.K), out)
		}
	case gen.List:
		for i, e := range v {
			paths(e, append(p, i), out)
		}
	}
}

func setAt(n gen.Node, p path, val gen.Node) gen.Node {
	if len(p) == 0 {
		return val
	}
	switch v := n.(type) {
	case gen.Map:
		for i, e := range v {
			if e.K == p[0] {
				nv := append(gen.Map{}, v...)
				nv[i].V = setAt(e.V, p[1:], val)
				return nv
			}
		}
	case gen.List:
		if i, ok := p[0].(int); ok && i < len(v) {
			nv := append(gen.List{}, v...)
			nv[i] = setAt(v[i], p[1:], val)
			return nv
		}
	}
	return n
}

func getAt(n gen.Node, p path) gen.Node {
	// after a "duplicate" mutation a map can hold one key twice with values of different shapes, so a path
	// taken through the second entry need not fit the first one: such a path resolves to nothing
	for _, k := range p {
		switch v := n.(type) {
		case gen.Map:
			ks, ok := k.(string)
			if !ok {
				return nil
			}
			x, _ := v.Get(ks)
			n = x
		case gen.List:
			i, ok := k.(int)
			if !ok || i >= len(v) {
				return nil
			}
			n = v[i]
		default:
			return nil
		}
	}
	return n
}

func delAt(n gen.Node, p path) gen.Node {
	if len(p) == 0 {
		return n
	}
	parent := getAt(n, p[:len(p)-1])
	switch v := parent.(type) {
	case gen.Map:
		var nv gen.Map
		for _, e := range v {
			if e.K != p[len(p)-1] {
				nv = append(nv, e)
			}
		}
		if nv == nil {
			nv = gen.Map{}
		}
		return setAt(n, p[:len(p)-1], nv)
	case gen.List:
		i, ok := p[len(p)-1].(int)
		if !ok || i >= len(v) {
			return n
		}
		nv := append(append(gen.List{}, v[:i]...), v[i+1:]...)
		return setAt(n, p[:len(p)-1], nv)
	}
	return n
}

func mutate(rt *rapid.T, n gen.Node) (gen.Node, []string) {
	var kinds []string
	k := rapid.SampledFrom([]int{0, 0, 1, 1, 1, 2, 3}).Draw(rt, "nmut")
	for i := 0; i < k; i++ {
		var ps []path
		paths(n, nil, &ps)
		p := ps[rapid.IntRange(0, len(ps)-1).Draw(rt, "path")]
		switch kind := rapid.SampledFrom([]string{"wrong-type", "wrong-type", "delete", "unknown-key", "duplicate", "non-string-key"}).Draw(rt, "mutkind"); kind {
		case "non-string-key":
			if m, ok := getAt(n, p).(gen.Map); ok && len(m) > 0 {
				nm := append(gen.Map{}, m...)
				i := rapid.IntRange(0, len(nm)-1).Draw(rt, "which")
				nm[i].K = gen.RawKey + rapid.SampledFrom([]string{"1", "true", "null", "1.5", "[a]", "{a: b}", "~", "0x10", "2020-01-01"}).Draw(rt, "rawkey")
				n = setAt(n, p, nm)
				kinds = append(kinds, kind)
			}
		case "wrong-type":
			n = setAt(n, p, wrong[rapid.IntRange(0, len(wrong)-1).Draw(rt, "wrong")])
			kinds = append(kinds, kind)
		case "delete":
			if len(p) > 0 {
				n = delAt(n, p)
				kinds = append(kinds, kind)
			}
		case "unknown-key":
			if m, ok := getAt(n, p).(gen.Map); ok {
				n = setAt(n, p, append(append(gen.Map{}, m...), gen.KV{K: "zz_unknown", V: wrong[rapid.IntRange(0, len(wrong)-1).Draw(rt, "wrong")]}))
				kinds = append(kinds, kind)
			}
		case "duplicate":
			switch v := getAt(n, p).(type) {
			case gen.Map:
				if len(v) > 0 { // the same key twice: the emitters write both
					n = setAt(n, p, append(append(gen.Map{}, v...), v[0]))
					kinds = append(kinds, kind)
				}
			case gen.List:
				if len(v) > 0 {
					n = setAt(n, p, append(append(gen.List{}, v...), v[0]))
					kinds = append(kinds, kind)
				}
			}
		}
	}
	return n, kinds
}

func tomlSafe(n gen.Node) (s string, ok bool) {
	defer func() {
		if recover() != nil {
			ok = false
		}
	}()
	return gen.TOML(n), true
}

func byteMutate(rt *rapid.T, b []byte) ([]byte, string) {
	if len(b) == 0 {
		return b, ""
	}
	switch rapid.IntRange(0, 11).Draw(rt, "bytemut") {
	case 0:
		return b[:rapid.IntRange(0, len(b)-1).Draw(rt, "truncate")], "truncate"
	case 1:
		i := rapid.IntRange(0, len(b)-1).Draw(rt, "at")
		bad := rapid.SampledFrom([]string{"\xff\xfe", "\x00", "\xc3", "\t", "\r\n", "\xef\xbb\xbf"}).Draw(rt, "bad")
		return append(append(append([]byte{}, b[:i]...), bad...), b[i:]...), "splice-bytes"
	case 2:
		i := rapid.IntRange(0, len(b)-1).Draw(rt, "at")
		c := append([]byte{}, b...)
		c[i] = rapid.SampledFrom([]byte{'{', '}', '[', ']', ':', '"', '\'', '&', '*', '!', '|', '>', '%', '@', '`', '#', '-', '?', ',', '=', '\n', ' '}).Draw(rt, "ch")
		return c, "replace-byte"
	}
	return b, ""
}

var yamlExtras = []string{
	"\nanchors:\n  base: &base\n    command: [\"true\"]\n  use:\n    <<: *base\n",
	"\ntasks:\n  anchored: &a\n    command: \"true\"\n  merged:\n    <<: *a\n    description: \"m\"\n",
	"\n? [complex, key]\n: value\n",
	"\ntasks:\n  1: {command: \"true\"}\n",
	"\ntasks:\n  numeric-keys: {command: \"true\", env: {1: 2}}\n",
	"\ntasks: !!binary aGVsbG8=\n",
	"\n--- \ntasks: {second_document: {command: \"true\"}}\n",
	"\ntasks:\n  self: &self\n    variables: *self\n",
	"\ntasks:\n  t: {command: ~, env: ~, variations: [~]}\n",
}

var envKeys = []string{"A", "K1", "", "a b", "#c", "export X", " Y", "é", "K.x", "1"}
var envValTokens = []string{"", "\"", "'", "\\", "a", " ", "#", "$X", "${", "=", "\t", "\"a\"", "'a'", "é", "\x00", "\"\"", "''", "`", "\r"}

// envGrammarLine builds KEY[=VALUE] from small alphabets of keys and value tokens (quotes, escapes,
// separators, comments): the shapes an env-file parser treats specially.
func envGrammarLine(rt *rapid.T) string {
	l := rapid.SampledFrom(envKeys).Draw(rt, "envkey")
	if rapid.IntRange(0, 7).Draw(rt, "noeq") == 0 {
		return l
	}
	l += "="
	for i := rapid.IntRange(0, 3).Draw(rt, "nvaltok"); i > 0; i-- {
		l += rapid.SampledFrom(envValTokens).Draw(rt, "valtok")
	}
	return l
}

func envFileLines(rt *rapid.T) []byte {
	var b []byte
	if rapid.Bool().Draw(rt, "env-grammar") {
		for i := rapid.IntRange(1, 6).Draw(rt, "envlines"); i > 0; i-- {
			b = append(b, envGrammarLine(rt)...)
			if rapid.IntRange(0, 9).Draw(rt, "nl") > 0 {
				b = append(b, '\n')
			}
		}
		return b
	}
	for i := rapid.IntRange(0, 6).Draw(rt, "envlines"); i > 0; i-- {
		l := rapid.SampledFrom([]string{"A=1", "", "noeq", "B=2=3", "=x", "  ", "#comment", "K=", "\x00=\x00", "LONG=" + strings.Repeat("x", 70000), "A=\xff", "=", "K = v", "export A=1"}).Draw(rt, "envline")
		b = append(b, l...)
		if rapid.IntRange(0, 9).Draw(rt, "nl") > 0 {
			b = append(b, '\n')
		}
	}
	return b
}

func genCase(rt *rapid.T) Case {
	c := Case{Files: map[string]string{}}
	hostility = rapid.SampledFrom([]int{0, 0, 1, 2}).Draw(rt, "hostility")
	format := rapid.SampledFrom([]string{"yaml", "yaml", "json", "toml"}).Draw(rt, "format")
	imports := []gen.Node{gen.List{"imp.yaml"}, gen.List{"missing.yaml"}, gen.List{"impdir"}, "imp.yaml", gen.List{int64(1)}, gen.List{gen.List{"x"}}, nil, gen.Map{},
		gen.List{"imp.json"}, gen.List{"imp.toml"}, gen.List{"imp.yaml", "imp.json"}, gen.List{"imp.yaml", "imp.yaml"}, gen.List{"main." + format}, gen.List{"bad.yaml"},
		gen.List{"sub/../imp.yaml"}, gen.List{""}, gen.List{"."}, gen.List{"imp.txt"}}
	cfg, tasks, pipes := genConfig(rt, imports)
	var node gen.Node = cfg
	node, c.Mutations = mutate(rt, node)
	var text string
	switch format {
	case "json":
		text = gen.JSON(node)
	case "toml":
		if s, ok := tomlSafe(node); ok {
			text = s
		} else {
			format = "yaml"
			text = gen.YAML(node)
		}
	default:
		text = gen.YAML(node)
		switch rapid.IntRange(0, 11).Draw(rt, "yaml_extra") {
		case 0:
			text += rapid.SampledFrom(yamlExtras).Draw(rt, "extra")
			c.Mutations = append(c.Mutations, "yaml-extra-appended")
		case 1:
			text = strings.TrimPrefix(rapid.SampledFrom(yamlExtras).Draw(rt, "extra"), "\n")
			c.Mutations = append(c.Mutations, "yaml-anchors-merge-keys-odd-keys")
		}
	}
	b, bm := []byte(text), ""
	if hostility > 0 {
		b, bm = byteMutate(rt, b)
	}
	if bm != "" {
		c.Mutations = append(c.Mutations, bm)
	}
	c.Format = format
	c.Main = "main." + format
	c.put(c.Main, b)
	// auxiliary files
	c.put("envf", []byte("A=1\nB=2\n"))
	c.put("envbad", []byte("A=1\n\nnoeq\nB=2=3\n=x\n"))
	c.put("envgen", envFileLines(rt))
	impTask := gen.Map{{K: "tasks", V: gen.Map{{K: "imported", V: gen.Map{{K: "command", V: "echo"}}}, {K: "t0", V: gen.Map{{K: "command", V: gen.List{"echo", "two"}}}}}}}
	c.put("imp.yaml", []byte(gen.YAML(impTask)))
	c.put("imp.json", []byte(gen.JSON(impTask)))
	c.put("imp.toml", []byte(gen.TOML(impTask)))
	c.put("imp.txt", []byte("tasks: {}\n"))
	c.put("impdir/x.yaml", []byte("tasks:\n  fromdir:\n    command: echo\n"))
	c.put("impdir/y.yaml", []byte("tasks:\n  fromdir2:\n    command: [echo]\nimport: [\"../imp.yaml\"]\n"))
	c.put("bad.yaml", []byte("tasks: [unclosed\n"))
	c.Show = append(append([]string{}, tasks...), "nope", "imported")
	if len(c.Show) > 4 {
		c.Show = c.Show[:4]
	}
	c.Graph = append(append([]string{}, pipes...), "nope")
	return c
}

func record(c Case, v verdict) {
	cls := []string{"format=" + c.Format}
	if v.accepted {
		cls = append(cls, "accepted")
	} else {
		cls = append(cls, "rejected", "rejected: "+v.reason)
	}
	ms := append([]string{}, c.Mutations...)
	sort.Strings(ms)
	for _, m := range ms {
		cls = append(cls, "mutation="+m)
	}
	if len(ms) == 0 {
		cls = append(cls, "unmutated")
	}
	drv.Eval(cls...)
	if len(ms) > 0 {
		drv.NonTrivial(c.canon())
	}
}

func sample(c Case) any {
	b, _ := base64.StdEncoding.DecodeString(c.Files[c.Main])
	s := string(b)
	if len(s) > 700 {
		s = s[:700] + "…"
	}
	return map[string]any{"main": c.Main, "mutations": c.Mutations, "text": strings.ToValidUTF8(s, "?")}
}

func TestGrammar(t *testing.T) {
	root := t.TempDir()
	k := 0
	rapid.Check(t, func(rt *rapid.T) {
		c := genCase(rt)
		k++
		dir := filepath.Join(root, fmt.Sprint("c", k))
		defer os.RemoveAll(dir)
		v, err := run(c, dir)
		record(c, v)
		drv.Sample(sample(c))
		if err != nil {
			drv.Fail(rt, "grammar", "", c, "%v\nmain file:\n%s", err, sample(c).(map[string]any)["text"])
		}
	})
}

func TestReplay(t *testing.T) {
	_, raw, ok := drv.ReplayFile()
	if !ok {
		t.Skip("no replay requested")
	}
	var c Case
	if err := json.Unmarshal(raw, &c); err != nil {
		t.Fatal(err)
	}
	if _, err := run(c, t.TempDir()); err != nil {
		drv.Fail(t, "replay", "", c, "%v", err)
	}
}

// TestDumpCorpus writes generated documents as seed corpus files for native fuzzing
// (go test fuzz v1 format), one directory per target under VERIF_CORPUS_DIR.
func TestDumpCorpus(t *testing.T) {
	out := os.Getenv("VERIF_CORPUS_DIR")
	if out == "" {
		t.Skip("no corpus directory requested")
	}
	n := 0
	rapid.Check(t, func(rt *rapid.T) {
		c := genCase(rt)
		b, _ := base64.StdEncoding.DecodeString(c.Files[c.Main])
		target := map[string]string{"yaml": "FuzzLoadYAML", "json": "FuzzLoadJSON", "toml": "FuzzLoadTOML"}[c.Format]
		dir := filepath.Join(out, target)
		os.MkdirAll(dir, 0o755)
		n++
		os.WriteFile(filepath.Join(dir, fmt.Sprintf("gen-%04d", n)), []byte(fmt.Sprintf("go test fuzz v1\n[]byte(%q)\n", b)), 0o644)
		eb, _ := base64.StdEncoding.DecodeString(c.Files["envgen"])
		if len(eb) < 4096 {
			os.MkdirAll(filepath.Join(out, "FuzzEnvFile"), 0o755)
			os.WriteFile(filepath.Join(out, "FuzzEnvFile", fmt.Sprintf("gen-%04d", n)), []byte(fmt.Sprintf("go test fuzz v1\n[]byte(%q)\n", eb)), 0o644)
		}
	})
}
