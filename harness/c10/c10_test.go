// Package c10 decides C10: template variables and CLI arguments reach commands with a fixed precedence.
package c10

import (
	"encoding/json"
	"fmt"
	"os"
	"path/filepath"
	"strings"
	"testing"

	"pgregory.net/rapid"

	"verif/harness/cli"
	"verif/harness/drv"
	"verif/harness/gen"
)

func TestMain(m *testing.M) { drv.Main(m) }

// levels, lowest to highest precedence
var levels = []string{"config", "set", "task", "stage"}

// VarCase: variable x defined at the levels of Mask; Args are the words after "--" (nil = no "--").
type VarCase struct {
	Mask    int      `json:"mask"`
	AsStage bool     `json:"as_stage"`
	Args    []string `json:"args"`
	Dash    bool     `json:"dash"`
	Vals    []string `json:"vals"` // value per level
	// a second name y, defined at the levels of Mask2 (0 = not used) with the values Vals2; SetFirst puts
	// its --set flag before the one of x. The two names share nothing but the command line and the files.
	Mask2    int      `json:"mask2,omitempty"`
	Vals2    []string `json:"vals2,omitempty"`
	SetFirst bool     `json:"set_first,omitempty"`
	// Twin (stage cases with x at the stage level): the pipeline holds a second, independent stage of the same task
	// that gives the same names other values (x = <stage value>_tw); the two run at the same time, and each must
	// resolve its own stage's values
	Twin bool `json:"twin,omitempty"`
}

func (c VarCase) canon() string { b, _ := json.Marshal(c); return string(b) }

func listOf(words []string) string {
	var b strings.Builder
	for _, w := range words {
		b.WriteString("<" + w + ">")
	}
	return b.String()
}

func runVars(c VarCase, dir string) error {
	dir, _ = filepath.EvalSymlinks(dir)
	os.MkdirAll(filepath.Join(dir, "home"), 0o755)
	os.MkdirAll(filepath.Join(dir, "tmpd"), 0o755)
	has := func(i int) bool { return c.Mask&(1<<i) != 0 }
	has2 := func(i int) bool { return c.Mask2&(1<<i) != 0 }
	ycmd := ""
	if c.Mask2 != 0 {
		ycmd = `printf 'Y=%s\n' '{{ .y }}'`
	}
	cmd := `printf 'X=%s other=%s R=%s T=%s A=[%s] L=%s E=[%s]\n' '{{ .x }}' '{{ .other }}' '{{ .Root }}' '{{ .TempDir }}' '{{ .Args }}' '{{ range .ArgsList }}<{{ . }}>{{ end }}' "$ARGS"`
	// greet is a task variable whose value is a template over x: it resolves with the x of the run at hand
	tvars := gen.Map{{K: "other", V: "taskother"}, {K: "greet", V: "G({{ .x }})"}}
	if has(2) {
		tvars = tvars.Set("x", c.Vals[2])
	}
	if has2(2) {
		tvars = tvars.Set("y", c.Vals2[2])
	}
	cmds := gen.List{cmd, `printf 'GREET=%s\n' '{{ .greet }}'`}
	twin := c.Twin && c.AsStage && has(3)
	if twin {
		cmds = append(gen.List{"sleep 0.15"}, cmds...) // both stages are in flight together
	}
	if ycmd != "" {
		cmds = append(cmds, ycmd)
	}
	task := gen.Map{{K: "command", V: cmds}, {K: "variables", V: tvars}}
	cfg := gen.Map{}
	if has(0) || has2(0) {
		cv := gen.Map{{K: "unrelated", V: "u"}}
		if has(0) {
			cv = cv.Set("x", c.Vals[0])
		}
		if has2(0) {
			cv = cv.Set("y", c.Vals2[0])
		}
		cfg = cfg.Set("variables", cv)
	}
	cfg = cfg.Set("tasks", gen.Map{{K: "tk", V: task}})
	stage := gen.Map{{K: "task", V: "tk"}}
	if has(3) || has2(3) {
		sv := gen.Map{}
		if has(3) {
			sv = sv.Set("x", c.Vals[3])
		}
		if has2(3) {
			sv = sv.Set("y", c.Vals2[3])
		}
		stage = stage.Set("variables", sv)
	}
	stages := gen.List{stage}
	if twin {
		sv := gen.Map{{K: "x", V: c.Vals[3] + "_tw"}}
		if has2(3) {
			sv = sv.Set("y", c.Vals2[3]+"_tw")
		}
		stages = append(stages, gen.Map{{K: "name", V: "tw"}, {K: "task", V: "tk"}, {K: "variables", V: sv}})
	}
	cfg = cfg.Set("pipelines", gen.Map{{K: "pp", V: stages}})
	os.WriteFile(filepath.Join(dir, "t.yaml"), []byte(gen.YAML(cfg)), 0o644)
	env := cli.Env{Bin: drv.Bin(), Dir: dir, Home: filepath.Join(dir, "home"), Extra: []string{"TMPDIR=" + filepath.Join(dir, "tmpd")}}
	args := []string{"-c", "t.yaml", "--raw"}
	if has2(1) && c.SetFirst {
		args = append(args, "--set", "y="+c.Vals2[1])
	}
	if has(1) {
		args = append(args, "--set", "x="+c.Vals[1])
	}
	if has2(1) && !c.SetFirst {
		args = append(args, "--set", "y="+c.Vals2[1])
	}
	// stage cases run the pipeline and then, where x (and y) are defined below the stage level too, the task directly
	// in the same invocation: the direct run resolves without the stage level
	both := c.AsStage && c.Mask&7 != 0 && (c.Mask2 == 0 || c.Mask2&7 != 0)
	if c.AsStage {
		args = append(args, "pp")
		if both {
			args = append(args, "tk")
		}
	} else {
		args = append(args, "tk")
	}
	if c.Dash {
		args = append(args, "--")
		args = append(args, c.Args...)
	}
	r := env.Run(args...)
	top := -1
	for i := 0; i < 4; i++ {
		if has(i) {
			top = i
		}
	}
	joined := strings.Join(c.Args, " ")
	want := fmt.Sprintf("X=%s other=taskother R=%s T=%s A=[%s] L=%s E=[%s]\n", c.Vals[top], dir, filepath.Join(dir, "tmpd"), joined, listOf(c.Args), joined)
	if r.Crashed() {
		return fmt.Errorf("argv %q: crashed: exit %d timedOut=%v stderr %q", args, r.Exit, r.TimedOut, r.Stderr)
	}
	if r.Exit != 0 || !strings.Contains(r.Stdout, want) {
		return fmt.Errorf("argv %q, x defined at %v: want line %q, got exit %d stdout %q stderr %q", args, present(c.Mask), want, r.Exit, r.Stdout, r.Stderr)
	}
	if wantG := "GREET=G(" + c.Vals[top] + ")\n"; !strings.Contains(r.Stdout, wantG) {
		return fmt.Errorf("argv %q, x defined at %v: the templated variable greet = G({{ .x }}) must resolve with this run's x: want line %q, stdout %q", args, present(c.Mask), wantG, r.Stdout)
	}
	if twin {
		wantT := fmt.Sprintf("X=%s_tw other=taskother R=%s T=%s A=[%s] L=%s E=[%s]\n", c.Vals[3], dir, filepath.Join(dir, "tmpd"), joined, listOf(c.Args), joined)
		wantTG := "GREET=G(" + c.Vals[3] + "_tw)\n"
		if !strings.Contains(r.Stdout, wantT) || !strings.Contains(r.Stdout, wantTG) {
			return fmt.Errorf("argv %q, x defined at %v: the second stage of the same task (x = %s_tw, running at the same time) must resolve its own stage's value: want lines %q and %q, stdout %q", args, present(c.Mask), c.Vals[3], wantT, wantTG, r.Stdout)
		}
		if has2(3) {
			if wantY := "Y=" + c.Vals2[3] + "_tw\n"; !strings.Contains(r.Stdout, wantY) {
				return fmt.Errorf("argv %q: the second stage of the same task must resolve its own y: want line %q, stdout %q", args, wantY, r.Stdout)
			}
		}
	}
	nGreet := 2
	if twin {
		nGreet = 3
	}
	if both {
		topD := -1
		for i := 0; i < 3; i++ {
			if has(i) {
				topD = i
			}
		}
		// the direct run's lines come last
		lastX, lastG := "", ""
		for _, l := range strings.Split(r.Stdout, "\n") {
			if strings.HasPrefix(l, "X=") {
				lastX = l
			}
			if strings.HasPrefix(l, "GREET=") {
				lastG = l
			}
		}
		if !strings.HasPrefix(lastX, "X="+c.Vals[topD]+" other=") || lastG != "GREET=G("+c.Vals[topD]+")" || strings.Count(r.Stdout, "GREET=") != nGreet {
			return fmt.Errorf("argv %q, x defined at %v: the direct run behind the pipeline must resolve x (and greet) without the stage level, to %q: stdout %q", args, present(c.Mask), c.Vals[topD], r.Stdout)
		}
	}
	if c.Mask2 != 0 {
		top2 := -1
		for i := 0; i < 4; i++ {
			if has2(i) {
				top2 = i
			}
		}
		if wantY := "Y=" + c.Vals2[top2] + "\n"; !strings.Contains(r.Stdout, wantY) {
			return fmt.Errorf("argv %q, second name y defined at %v (x at %v): want line %q, stdout %q stderr %q", args, present(c.Mask2), present(c.Mask), wantY, r.Stdout, r.Stderr)
		}
	}
	return nil
}

func present(mask int) []string {
	var o []string
	for i, l := range levels {
		if mask&(1<<i) != 0 {
			o = append(o, l)
		}
	}
	return o
}

var argAlphabet = []string{"a", "tk", "marker", "k=v", "-x", "--set", "--", "--raw", "x/y.z", "-", "=", "run", "list", "A_b-1", "--set=x=1", "-c",
	// words that hold white space, and the empty word: .ArgsList keeps the word boundaries
	"hello world", "", "tab\tin", " lead"}

// TestVars: per rapid case every non-empty subset of the four levels (7 for a direct run), with a
// drawn run mode, drawn values and a drawn argument vector for the built-ins.
func TestVars(t *testing.T) {
	root := t.TempDir()
	k := 0
	rapid.Check(t, func(rt *rapid.T) {
		asStage := rapid.Bool().Draw(rt, "as_stage")
		dash := rapid.Bool().Draw(rt, "dash")
		var words []string
		if dash {
			words = rapid.SliceOfN(rapid.SampledFrom(argAlphabet[:14]), 0, 3).Draw(rt, "words")
			if len(words) > 0 && words[0] == "--" {
				words = words[1:] // a leading second "--" belongs to the argument-vector part
			}
		}
		vals := rapid.Permutation([]string{"v_config", "a_set=eq=1", "z_task", "m_stage"}).Draw(rt, "vals")
		// the second name: absent in a third of the cases, otherwise at a drawn subset of the levels
		mask2 := 0
		if rapid.IntRange(0, 2).Draw(rt, "second-name") > 0 {
			mask2 = rapid.IntRange(1, 15).Draw(rt, "mask2")
			if !asStage {
				mask2 &^= 8
			}
		}
		vals2 := rapid.Permutation([]string{"y_config", "b_set", "y_task", "n_stage"}).Draw(rt, "vals2")
		setFirst := rapid.Bool().Draw(rt, "y-set-first")
		twin := asStage && rapid.Bool().Draw(rt, "twin-stage")
		for mask := 1; mask < 16; mask++ {
			if !asStage && mask&8 != 0 {
				continue
			}
			c := VarCase{Mask: mask, AsStage: asStage, Args: words, Dash: dash, Vals: vals, Twin: twin && mask&8 != 0}
			if c.Twin {
				drv.Class("two stages of one task at the same time")
			}
			if mask2 != 0 {
				c.Mask2, c.Vals2, c.SetFirst = mask2, vals2, setFirst
				if mask&2 != 0 && mask2&2 != 0 {
					drv.Class("two --set flags")
				}
			}
			k++
			dir := filepath.Join(root, fmt.Sprint("c", k))
			os.MkdirAll(dir, 0o755)
			drv.Eval(fmt.Sprintf("levels-present=%d", len(present(mask))))
			if len(present(mask)) >= 2 {
				drv.NonTrivial(c.canon())
			}
			if mask == 11 {
				drv.Sample(c)
			}
			err := runVars(c, dir)
			os.RemoveAll(dir)
			if err != nil {
				drv.Fail(rt, "vars", "", c, "%v", err)
			}
		}
	})
}

// ArgsCase: an argument vector after "--", with 1..2 targets, directly or through `run`.
type ArgsCase struct {
	Words   []string `json:"words"`
	ViaRun  bool     `json:"via_run"`
	Targets int      `json:"targets"`
}

func runArgs(c ArgsCase, dir string) error {
	os.MkdirAll(filepath.Join(dir, "home"), 0o755)
	trace := filepath.Join(dir, "trace")
	marker := gen.Map{{K: "command", V: fmt.Sprintf("printf 'MARKER-RAN\\n' >> %s", trace)}}
	tasks := gen.Map{
		{K: "tk", V: gen.Map{{K: "command", V: gen.List{`printf 'TK ARGS=[%s] args=[%s] list=%s\n' "$ARGS" '{{ .Args }}' '{{ range .ArgsList }}<{{ . }}>{{ end }}'`}}}},
		{K: "tk2", V: gen.Map{{K: "command", V: gen.List{`printf 'TK2 ARGS=[%s] args=[%s] list=%s\n' "$ARGS" '{{ .Args }}' '{{ range .ArgsList }}<{{ . }}>{{ end }}'`}}}},
	}
	for _, w := range argAlphabet {
		if w != "tk" && w != "" {
			tasks = tasks.Set(w, marker) // a task named like the word: must never run when the word follows "--"
		}
	}
	cfg := gen.Map{{K: "tasks", V: tasks}}
	os.WriteFile(filepath.Join(dir, "t.yaml"), []byte(gen.YAML(cfg)), 0o644)
	env := cli.Env{Bin: drv.Bin(), Dir: dir, Home: filepath.Join(dir, "home")}
	args := []string{"-c", "t.yaml", "--raw"}
	if c.ViaRun {
		args = append(args, "run")
	}
	args = append(args, "tk")
	if c.Targets == 2 {
		args = append(args, "tk2")
	}
	args = append(args, "--")
	args = append(args, c.Words...)
	r := env.Run(args...)
	joined := strings.Join(c.Words, " ")
	want := fmt.Sprintf("TK ARGS=[%s] args=[%s] list=%s\n", joined, joined, listOf(c.Words))
	if c.Targets == 2 {
		want += fmt.Sprintf("TK2 ARGS=[%s] args=[%s] list=%s\n", joined, joined, listOf(c.Words))
	}
	if r.Crashed() {
		return fmt.Errorf("argv %q: crashed: exit %d stderr %q", args, r.Exit, r.Stderr)
	}
	if r.Exit != 0 || r.Stdout != want {
		return fmt.Errorf("argv %q: want stdout %q, got exit %d stdout %q stderr %q", args, want, r.Exit, r.Stdout, r.Stderr)
	}
	if b, _ := os.ReadFile(trace); len(b) > 0 {
		return fmt.Errorf("argv %q: a word after -- was treated as a target (marker task ran)", args)
	}
	return nil
}

func TestArgs(t *testing.T) {
	root := t.TempDir()
	k := 0
	rapid.Check(t, func(rt *rapid.T) {
		c := ArgsCase{
			Words:   rapid.SliceOfN(rapid.SampledFrom(argAlphabet), 0, 5).Draw(rt, "words"),
			ViaRun:  rapid.Bool().Draw(rt, "via_run"),
			Targets: rapid.IntRange(1, 2).Draw(rt, "targets"),
		}
		k++
		dir := filepath.Join(root, fmt.Sprint("a", k))
		os.MkdirAll(dir, 0o755)
		defer os.RemoveAll(dir)
		b, _ := json.Marshal(c)
		special := 0
		for _, w := range c.Words {
			if strings.HasPrefix(w, "-") || strings.Contains(w, "=") || w == "tk" || w == "marker" || w == "run" || w == "list" || w == "" || strings.ContainsAny(w, " \t") {
				special++
			}
		}
		drv.Eval(fmt.Sprintf("words=%d", len(c.Words)))
		if len(c.Words) >= 2 && special > 0 {
			drv.NonTrivial(string(b))
		}
		drv.Sample(c)
		if err := runArgs(c, dir); err != nil {
			drv.Fail(rt, "args", "", c, "%v", err)
		}
	})
}

// UndefCase: a task of N commands whose command K refers to an undefined variable.
type UndefCase struct {
	N       int  `json:"n"`
	K       int  `json:"k"`
	AsStage bool `json:"as_stage"`
	InDir   bool `json:"in_dir"`                 // the reference sits in the task's dir instead of command K
	Form    int  `json:"form"`                   // how the command refers to the variable, see undefForms
	InCond  bool `json:"in_condition,omitempty"` // the reference sits in the task's condition: the task fails, it is not skipped
}

// the reference in its plain form and inside the constructs in which an undefined variable would
// otherwise vanish silently
var undefForms = []string{
	"{{ .no_such_variable }}",
	"{{ if .no_such_variable }}yes{{ end }}",
	"{{ with .no_such_variable }}{{ . }}{{ end }}",
	"{{ range .no_such_variable }}x{{ end }}",
	"{{ not .no_such_variable }}",
	"{{ $v := .no_such_variable }}{{ $v }}",
	"{{ printf \"%v\" .no_such_variable }}",
	"{{ .no_such_variable.field }}",
}

func runUndef(c UndefCase, dir string) error {
	os.MkdirAll(filepath.Join(dir, "home"), 0o755)
	trace := filepath.Join(dir, "trace")
	var cmds gen.List
	for i := 0; i < c.N; i++ {
		if i == c.K && !c.InDir {
			cmds = append(cmds, fmt.Sprintf("printf 'RAN:%d:%%s\\n' '%s' >> %s", i, undefForms[c.Form%len(undefForms)], trace))
		} else {
			cmds = append(cmds, fmt.Sprintf("printf 'RAN:%d\\n' >> %s", i, trace))
		}
	}
	task := gen.Map{{K: "command", V: cmds}}
	if c.InDir {
		task = task.Set("dir", "{{ .no_such_variable }}")
	}
	if c.InCond {
		task = task.Set("condition", "test -z '{{ .no_such_variable }}'")
	}
	cfg := gen.Map{{K: "tasks", V: gen.Map{{K: "tk", V: task}}}, {K: "pipelines", V: gen.Map{{K: "pp", V: gen.List{gen.Map{{K: "task", V: "tk"}}}}}}}
	os.WriteFile(filepath.Join(dir, "t.yaml"), []byte(gen.YAML(cfg)), 0o644)
	env := cli.Env{Bin: drv.Bin(), Dir: dir, Home: filepath.Join(dir, "home")}
	target := "tk"
	if c.AsStage {
		target = "pp"
	}
	r := env.Run("-c", "t.yaml", "--raw", target)
	if r.Crashed() {
		return fmt.Errorf("crashed: exit %d stderr %q", r.Exit, r.Stderr)
	}
	var want []string
	if !c.InDir && !c.InCond {
		for i := 0; i < c.K; i++ {
			want = append(want, fmt.Sprintf("RAN:%d", i))
		}
	}
	b, _ := os.ReadFile(trace)
	got := strings.Fields(string(b))
	if strings.Join(got, " ") != strings.Join(want, " ") {
		return fmt.Errorf("commands executed: %v, want %v (everything before the undefined reference, nothing from it on)", got, want)
	}
	if r.Exit == 0 {
		return fmt.Errorf("exit status 0 although the task refers to an undefined variable; stderr %q", r.Stderr)
	}
	return nil
}

// TestUndefined enumerates the position of the undefined reference in tasks of 1..4 commands.
func TestUndefined(t *testing.T) {
	root := t.TempDir()
	idx, nsh := drv.Shard()
	k := 0
	for n := 1; n <= 4; n++ {
		for pos := 0; pos <= n; pos++ {
			for stage := 0; stage < 2; stage++ {
				if n == 2 && pos < n && stage == 0 {
					// every form of reference once more, at both positions of a two-command task
					for f := range undefForms {
						k++
						if k%nsh != idx {
							continue
						}
						c := UndefCase{N: n, K: pos, Form: f}
						dir := filepath.Join(root, fmt.Sprint("u", k))
						os.MkdirAll(dir, 0o755)
						b, _ := json.Marshal(c)
						drv.Eval("undefined-variable", fmt.Sprintf("form=%d", f))
						drv.NonTrivial(string(b))
						err := runUndef(c, dir)
						os.RemoveAll(dir)
						if err != nil {
							drv.Fail(t, "undefined", "", c, "%v; reference %s; case %s", err, undefForms[f], b)
						}
					}
				}
				k++
				if k%nsh != idx {
					continue
				}
				c := UndefCase{N: n, K: pos, AsStage: stage == 1, InDir: pos == n, Form: k % len(undefForms)}
				dir := filepath.Join(root, fmt.Sprint("u", k))
				os.MkdirAll(dir, 0o755)
				b, _ := json.Marshal(c)
				drv.Eval("undefined-variable")
				drv.NonTrivial(string(b))
				drv.Sample(c)
				err := runUndef(c, dir)
				os.RemoveAll(dir)
				if err != nil {
					drv.Fail(t, "undefined", "", c, "%v; case %s", err, b)
				}
			}
		}
	}
	// the reference in the task's condition, for tasks run directly and as a stage
	for stage := 0; stage < 2; stage++ {
		k++
		if k%nsh != idx {
			continue
		}
		c := UndefCase{N: 2, K: 0, AsStage: stage == 1, InCond: true}
		dir := filepath.Join(root, fmt.Sprint("uc", k))
		os.MkdirAll(dir, 0o755)
		b, _ := json.Marshal(c)
		drv.Eval("undefined-variable", "in-condition")
		drv.NonTrivial(string(b))
		err := runUndef(c, dir)
		os.RemoveAll(dir)
		if err != nil {
			drv.Fail(t, "undefined", "", c, "%v; case %s", err, b)
		}
	}
	drv.SetExhaustive()
}

func TestReplay(t *testing.T) {
	part, raw, ok := drv.ReplayFile()
	if !ok {
		t.Skip("no replay requested")
	}
	var err error
	var cc any
	switch part {
	case "args":
		var c ArgsCase
		json.Unmarshal(raw, &c)
		cc, err = c, runArgs(c, t.TempDir())
	case "undefined":
		var c UndefCase
		json.Unmarshal(raw, &c)
		cc, err = c, runUndef(c, t.TempDir())
	default:
		var c VarCase
		json.Unmarshal(raw, &c)
		cc, err = c, runVars(c, t.TempDir())
	}
	if err != nil {
		drv.Fail(t, part, "", cc, "%v", err)
	}
}
