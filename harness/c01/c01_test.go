package c01

import (
	"encoding/json"
	"fmt"
	"io"
	"math/rand"
	"strings"
	"testing"
	"time"

	"github.com/sirupsen/logrus"
	"pgregory.net/rapid"

	"verif/harness/drv"
	"verif/harness/hook"
)

func TestMain(m *testing.M) {
	logrus.SetOutput(io.Discard)
	drv.Main(m)
}

// Case is one pipeline plus the choices of each execution (a schedule).
type Case struct {
	G        *Gr     `json:"g"`
	Choices  [][]int `json:"choices"`
	CancelOK bool    `json:"cancel_ok,omitempty"`
	Subsets  bool    `json:"subsets,omitempty"`
}

func params(late bool, scale int) Params {
	p := Params{Pause: 200 * time.Microsecond, Settle: 2 * time.Millisecond, Bound: 4 * time.Second, Late: late}
	if !hook.Have {
		p.Settle = 120 * time.Millisecond
		p.Bound = 12 * time.Second
	}
	p.Bound *= time.Duration(scale)
	return p
}

type rapidChooser struct{ rt *rapid.T }

func (r rapidChooser) Pick(label string, n int) int {
	if n <= 1 {
		return 0
	}
	return rapid.IntRange(0, n-1).Draw(r.rt, label)
}

type result struct {
	obs     []Obs
	vs      []Violation
	reading string
}

func hasCondFalseWithDeps(g *Gr) bool {
	for _, s := range g.Stages {
		if s.Outcome == CondFalse && len(s.Deps) > 0 {
			return true
		}
		if s.Nested != nil && hasCondFalseWithDeps(s.Nested) {
			return true
		}
	}
	return false
}

// runAll executes the case once per chooser under one model reading.
func runAll(c Case, chs []Chooser, late bool, scale int) result {
	r := result{reading: "early"}
	if late {
		r.reading = "late"
	}
	for _, ch := range chs {
		p := params(late, scale)
		p.CancelOK, p.Subsets = c.CancelOK, c.Subsets
		o, vs := execute(c.G, ch, p)
		r.obs = append(r.obs, o)
		r.vs = append(r.vs, vs...)
		if len(vs) > 0 {
			break
		}
	}
	return r
}

func replayChoosers(choices [][]int) []Chooser {
	var out []Chooser
	for _, c := range choices {
		out = append(out, &recorded{in: c})
	}
	return out
}

// decide runs the case and applies the soundness rules: a breached time bound is re-tried once
// with a 5x bound; a disagreement in a pipeline with a dependent condition-false stage is re-tried
// under the second reading of the statements (all executions under the same reading).
func decide(c *Case, chs []Chooser) result {
	r := runAll(*c, chs, false, 1)
	c.Choices = nil
	for _, o := range r.obs {
		c.Choices = append(c.Choices, o.Choices)
	}
	for len(c.Choices) < len(chs) {
		c.Choices = append(c.Choices, nil)
	}
	if len(r.vs) == 0 {
		return r
	}
	if anyLiveness(r) {
		drv.Class("retry-liveness")
		r2 := runAll(*c, replayChoosers(c.Choices), false, 5)
		if len(r2.vs) == 0 {
			drv.Note("a liveness bound was breached once and held on the retry (machine load?): %s", r.vs[0].Msg)
			return r2
		}
		r = r2
	}
	if hasCondFalseWithDeps(c.G) {
		drv.Class("retry-late-reading")
		r2 := runAll(*c, replayChoosers(c.Choices), true, 1)
		if len(r2.vs) == 0 {
			return r2
		}
	}
	return r
}

func anyLiveness(r result) bool {
	for _, o := range r.obs {
		if o.Liveness {
			return true
		}
	}
	return false
}

// ---- evidence: classes and the per-property non-trivial rule

func record(c Case, r result) {
	n, e, nested, condErr := c.G.size()
	cls := []string{fmt.Sprintf("stages=%d", min(n, 9)), "reading=" + r.reading}
	if nested {
		cls = append(cls, "nested")
	}
	if condErr {
		cls = append(cls, "cond-error")
	}
	w := 0
	cancelled := ""
	inflight := 0
	failDep, mixed := false, false
	for _, o := range r.obs {
		if o.MaxWidth > w {
			w = o.MaxWidth
		}
		if o.Cancelled != "" {
			cancelled, inflight = o.Cancelled, o.InFlightAt
		}
		failDep = failDep || o.FailWithDependantAndSibling
		mixed = mixed || o.MixedDeps
	}
	cls = append(cls, fmt.Sprintf("max-in-flight=%d", min(w, 6)))
	if cancelled != "" {
		cls = append(cls, fmt.Sprintf("cancel=%s/in-flight=%d", cancelled, min(inflight, 3)))
	}
	if failDep {
		cls = append(cls, "failure-with-dependant-and-sibling-in-flight")
	}
	if mixed {
		cls = append(cls, "dependant-with-failed-and-running-deps")
	}
	drv.Eval(cls...)
	canon := func() string { b, _ := json.Marshal(c); return string(b) }
	switch drv.Prop() {
	case "C01":
		if e >= 1 && w >= 2 {
			drv.NonTrivial(canon())
		}
	case "C02":
		if failDep || mixed {
			drv.NonTrivial(canon())
		}
	case "C03":
		if cancelled != "" {
			drv.NonTrivial(fmt.Sprintf("%s/%d/%s", cancelled, inflight, canon()))
		} else if n >= 2 && e >= 1 {
			drv.NonTrivial(canon())
		}
	default: // C04
		if w >= 2 {
			drv.NonTrivial(canon())
		}
	}
}

// after three cases that contradict a sibling property (not the one being decided) the shard stops
// generating: the model and the scheduler have diverged and every further case would cost a
// liveness bound.
var (
	siblings  int
	stopEarly bool
)

// verdict fails the test when a violation contradicts the property this run decides; violations
// of sibling properties are noted (their own checks report them).
func verdict(t drv.TB, part string, c Case, r result) {
	me := drv.Prop()
	if me == "" {
		me = "C01"
	}
	var mine, other []string
	for _, v := range r.vs {
		if v.Hits(me) {
			mine = append(mine, v.Msg)
		} else {
			other = append(other, v.Props+": "+v.Msg)
		}
	}
	if len(other) > 0 {
		drv.Class("sibling-violation")
		drv.Note("sibling oracle disagreed (reported by that property's check): %s", other[0])
		siblings++
		if siblings >= 3 && !stopEarly {
			stopEarly = true
			drv.Note("3 cases disagreed with a sibling oracle: the remaining cases of this shard were not run")
		}
	}
	if len(mine) > 0 {
		drv.Fail(t, part, "", c, "%s", strings.Join(mine, "\n"))
	}
}

// ---- generators

// genGraph draws a pipeline. Stage names are unique within a pipeline only: with reuse set, nested
// pipelines use the same short names as their parents (ids, i.e. task names, stay unique).
func genGraph(rt *rapid.T, prefix string, maxN, depth int, condErr bool) *Gr {
	return genGraphN(rt, prefix, 1, maxN, depth, condErr)
}

func genGraphN(rt *rapid.T, prefix string, minN, maxN, depth int, condErr bool) *Gr {
	n := rapid.IntRange(minN, maxN).Draw(rt, "n")
	density := rapid.IntRange(0, 3).Draw(rt, "density")
	if minN > 8 {
		// wide graphs: few edges, so that many stages are eligible together
		density = rapid.IntRange(0, 1).Draw(rt, "wide-density")
	}
	// how many of the stages run a nested pipeline: about a sixth, or (wide graphs) half or all of them
	nestDen := 6
	conds := true
	if minN > 8 {
		nestDen = rapid.SampledFrom([]int{6, 2, 1}).Draw(rt, "nested-share")
		// stage conditions are commands that the scheduling pass runs itself: without them a pass over a wide front is quick
		conds = rapid.Bool().Draw(rt, "stage-conditions")
	}
	reuse := rapid.Bool().Draw(rt, "reuse-stage-names-across-levels")
	name := func(i int) string {
		if reuse {
			return fmt.Sprintf("s%d", i)
		}
		return fmt.Sprintf("%s%d", prefix, i)
	}
	sts := make([]*St, n)
	for i := 0; i < n; i++ {
		s := &St{Name: name(i), ID: fmt.Sprintf("%s%d", prefix, i)}
		for j := 0; j < i; j++ {
			if rapid.IntRange(0, 3).Draw(rt, "e") < density {
				s.Deps = append(s.Deps, name(j))
			}
		}
		s.Outcome = rapid.SampledFrom([]int{OK, OK, OK, Fail, FailAllow, CondFalse}).Draw(rt, "o")
		if !conds && s.Outcome == CondFalse {
			s.Outcome = OK
		}
		if conds && s.Outcome != CondFalse && rapid.IntRange(0, 9).Draw(rt, "condtrue") == 0 {
			s.CondTrue = true
		}
		if rapid.IntRange(0, 3).Draw(rt, "task-attributes") == 0 {
			s.Attr = rapid.IntRange(1, 15).Draw(rt, "attr")
		}
		// a dependency listed twice, next to its first mention or not
		if len(s.Deps) > 0 && rapid.IntRange(0, 5).Draw(rt, "repeat-a-dependency") == 0 {
			d := s.Deps[rapid.IntRange(0, len(s.Deps)-1).Draw(rt, "which-dep")]
			at := rapid.IntRange(0, len(s.Deps)).Draw(rt, "repeat-at")
			s.Deps = append(s.Deps[:at], append([]string{d}, s.Deps[at:]...)...)
		}
		if condErr && rapid.IntRange(0, 3).Draw(rt, "conderr") == 0 {
			s.Outcome = CondErr
		}
		if depth > 0 && s.Outcome != CondErr && rapid.IntRange(0, nestDen-1).Draw(rt, "nest") == 0 {
			s.Nested = genGraph(rt, s.ID+"_", 3, depth-1, condErr)
			s.Allow = rapid.Bool().Draw(rt, "allow")
			if s.Outcome != CondFalse {
				s.Outcome = OK
			}
		}
		sts[i] = s
	}
	// now and then a second stage that schedules the same pipeline object again: after the first use (it depends
	// on it), or independently of it, so that both uses can be in flight together; stages behind position k may
	// in turn depend on the second use
	for i := 0; i < n; i++ {
		if sts[i].Nested != nil && sts[i].Outcome != CondFalse && rapid.IntRange(0, 3).Draw(rt, "reuse-pipeline") == 0 {
			r := &St{Name: name(n), ID: fmt.Sprintf("%s%d", prefix, n), Deps: []string{sts[i].Name}, Outcome: OK,
				Nested: sts[i].Nested, ReuseOf: sts[i].ID, Allow: rapid.Bool().Draw(rt, "reuse-allow")}
			if rapid.Bool().Draw(rt, "reuse-concurrently") {
				k := rapid.IntRange(0, n).Draw(rt, "reuse-position")
				r.Deps = nil
				for j := 0; j < k; j++ {
					if j != i && rapid.IntRange(0, 3).Draw(rt, "reuse-dep") == 0 {
						r.Deps = append(r.Deps, sts[j].Name)
					}
				}
				for j := k; j < n; j++ {
					if j != i && rapid.Bool().Draw(rt, "dep-on-reuse") {
						sts[j].Deps = append(sts[j].Deps, r.Name)
					}
				}
			}
			sts = append(sts, r)
			break
		}
	}
	return &Gr{Stages: rapid.Permutation(sts).Draw(rt, "declaration-order")}
}

func execCount() int {
	if drv.Prop() == "C02" {
		return 2
	}
	return 1
}

// TestRandom: random DAGs up to 8 stages, optional nested pipeline (depth <= 2), random outcomes,
// the completion order is a rapid state machine (one draw per quiescent point).
func TestRandom(t *testing.T) {
	rapid.Check(t, func(rt *rapid.T) {
		if stopEarly {
			return
		}
		c := Case{G: genGraph(rt, "s", 8, 2, false), Subsets: rapid.Bool().Draw(rt, "subsets")}
		var chs []Chooser
		for i := 0; i < execCount(); i++ {
			chs = append(chs, rapidChooser{rt})
		}
		drv.Pending("random", c)
		r := decide(&c, chs)
		drv.Done()
		record(c, r)
		drv.Sample(c)
		verdict(rt, "random", c, r)
	})
}

// TestWide: 17..40 stages with few edges and some nested pipelines, so that more stages are in flight together (over
// all nesting levels) than any small fixed pool could hold: every eligible stage must still be started, the run must end.
func TestWide(t *testing.T) {
	rapid.Check(t, func(rt *rapid.T) {
		if stopEarly {
			return
		}
		c := Case{G: genGraphN(rt, "s", 17, 40, 1, false)}
		drv.Pending("wide", c)
		r := decide(&c, []Chooser{rapidChooser{rt}})
		drv.Done()
		record(c, r)
		drv.Sample(c)
		verdict(rt, "wide", c, r)
	})
}

// TestCancel: the cancelled case of C03 - a caller-side Scheduler.Cancel at a drawn quiescent point
// or a stage whose condition cannot be evaluated, with 0, 1 or several runs in flight.
func TestCancel(t *testing.T) {
	rapid.Check(t, func(rt *rapid.T) {
		if stopEarly {
			return
		}
		condErr := rapid.Bool().Draw(rt, "cond-error-case")
		c := Case{G: genGraph(rt, "s", 7, 1, condErr), CancelOK: !condErr || rapid.Bool().Draw(rt, "also-caller")}
		drv.Pending("cancel", c)
		r := decide(&c, []Chooser{rapidChooser{rt}})
		drv.Done()
		record(c, r)
		drv.Sample(c)
		verdict(rt, "cancel", c, r)
	})
}

// ---- exhaustive part

// dags returns every labelled DAG on n nodes as adjacency masks: bit i*n+j = "j depends on i".
func dags(n int) []int {
	var out []int
	for mask := 0; mask < 1<<(n*n); mask++ {
		ok := true
		for i := 0; i < n && ok; i++ {
			if mask&(1<<(i*n+i)) != 0 {
				ok = false
			}
		}
		if !ok || cyclicMask(n, mask) {
			continue
		}
		out = append(out, mask)
	}
	return out
}

func cyclicMask(n, mask int) bool {
	indeg := make([]int, n)
	for i := 0; i < n; i++ {
		for j := 0; j < n; j++ {
			if mask&(1<<(i*n+j)) != 0 {
				indeg[j]++
			}
		}
	}
	removed := make([]bool, n)
	for k := 0; k < n; k++ {
		found := -1
		for j := 0; j < n; j++ {
			if !removed[j] && indeg[j] == 0 {
				found = j
				break
			}
		}
		if found < 0 {
			return true
		}
		removed[found] = true
		for j := 0; j < n; j++ {
			if mask&(1<<(found*n+j)) != 0 {
				indeg[j]--
			}
		}
	}
	return false
}

func perms(n int) [][]int {
	if n == 0 {
		return [][]int{{}}
	}
	var out [][]int
	for _, p := range perms(n - 1) {
		for pos := 0; pos <= len(p); pos++ {
			q := append(append(append([]int{}, p[:pos]...), n-1), p[pos:]...)
			out = append(out, q)
		}
	}
	return out
}

func mkGraph(n, mask int, order []int, outcomes []int) *Gr {
	g := &Gr{}
	for _, j := range order {
		s := &St{Name: fmt.Sprintf("s%d", j), Outcome: outcomes[j]}
		for i := 0; i < n; i++ {
			if mask&(1<<(i*n+j)) != 0 {
				s.Deps = append(s.Deps, fmt.Sprintf("s%d", i))
			}
		}
		g.Stages = append(g.Stages, s)
	}
	return g
}

// allSchedules runs the case under every completion order (odometer over the recorded branching
// factors), up to limit executions; returns how many it ran.
func allSchedules(t *testing.T, c Case, limit int) int {
	prefix := []int{}
	runs := 0
	for {
		if stopEarly {
			return runs
		}
		rc := &recorded{in: prefix}
		cc := c
		r := decide(&cc, []Chooser{rc})
		record(cc, r)
		if runs == 0 {
			drv.Sample(cc)
		}
		verdict(t, "exhaustive", cc, r)
		runs++
		// next choice vector
		vec, ns := rc.out, rc.ns
		i := len(vec) - 1
		for i >= 0 && vec[i]+1 >= ns[i] {
			i--
		}
		if i < 0 || runs >= limit {
			return runs
		}
		prefix = append(append([]int{}, vec[:i]...), vec[i]+1)
	}
}

// TestExhaustive: every labelled DAG on n <= VERIF_N stages. n <= 3: every declaration order, every
// assignment of the four outcomes, every completion order. n = 4: every DAG (543), with declaration
// orders, outcome assignments drawn from a PRNG seeded by VERIF_SEED and every completion order
// up to 24 executions per assignment.
func TestExhaustive(t *testing.T) {
	maxN := drv.N(3)
	idx, nsh := drv.Shard()
	k := 0
	for n := 1; n <= maxN; n++ {
		ps := perms(n)
		for di, mask := range dags(n) {
			k++
			if k%nsh != idx {
				continue
			}
			rng := rand.New(rand.NewSource(drv.Seed()*7919 + int64(n)*100003 + int64(di)))
			if n <= 3 {
				total := 1
				for i := 0; i < n; i++ {
					total *= 4
				}
				for _, order := range ps {
					for a := 0; a < total; a++ {
						out := make([]int, n)
						x := a
						for i := range out {
							out[i] = x % 4
							x /= 4
						}
						allSchedules(t, Case{G: mkGraph(n, mask, order, out)}, 1000)
					}
				}
				continue
			}
			orders, assigns := 3, 6
			if drv.Thorough() {
				orders, assigns = 6, 24
			}
			for o := 0; o < orders; o++ {
				order := ps[rng.Intn(len(ps))]
				for a := 0; a < assigns; a++ {
					out := make([]int, n)
					for i := range out {
						out[i] = []int{OK, OK, Fail, FailAllow, CondFalse}[rng.Intn(5)]
					}
					allSchedules(t, Case{G: mkGraph(n, mask, order, out)}, 24)
				}
			}
		}
	}
	if maxN >= 3 {
		drv.SetExhaustive()
	}
}

func TestReplay(t *testing.T) {
	_, raw, ok := drv.ReplayFile()
	if !ok {
		t.Skip("no replay requested")
	}
	var c Case
	if err := json.Unmarshal(raw, &c); err != nil {
		t.Fatal(err)
	}
	if len(c.Choices) == 0 {
		c.Choices = [][]int{nil}
	}
	r := decide(&c, replayChoosers(c.Choices))
	for _, v := range r.vs {
		t.Logf("violation [%s]: %s", v.Props, v.Msg)
	}
	verdict(t, "replay", c, r)
}
