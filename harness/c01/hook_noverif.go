//go:build !verif

package c01

import (
	"time"

	"github.com/taskctl/taskctl/pkg/scheduler"
)

const haveHook = false

// without the hook the checks are the same, the polling pause stays at 50ms
func setPause(s *scheduler.Scheduler, d time.Duration) {}
