// Package c01 is the scheduler engine shared by C01-C04: the real scheduler.Scheduler driven by a
// checker-controlled Runner, compared step by step with a reference model.
package c01

import (
	"fmt"
	"sort"
	"strings"
)

// Outcomes of a leaf stage.
const (
	OK        = 0 // task succeeds
	Fail      = 1 // task fails, no allow_failure
	FailAllow = 2 // task fails, stage has allow_failure
	CondFalse = 3 // stage condition exits non-zero: skipped
	CondErr   = 4 // stage condition cannot be evaluated: the run is cancelled
)

// St is one stage of a generated pipeline.
type St struct {
	Name     string   `json:"name"`         // stage name: unique within its pipeline only
	ID       string   `json:"id,omitempty"` // task name: unique in the whole case (the controlled Runner's key)
	Deps     []string `json:"deps,omitempty"`
	Outcome  int      `json:"outcome"`
	CondTrue bool     `json:"cond_true,omitempty"` // has a condition that holds
	Nested   *Gr      `json:"nested,omitempty"`
	Allow    bool     `json:"allow,omitempty"` // allow_failure of a nesting stage
	// ReuseOf names (by id) another nesting stage of the same pipeline: this stage schedules the very same
	// pipeline object again. The pipeline's stages run once: when this stage depends on the first use they are
	// already resolved and the second use resolves at once with the same verdict; when both uses are in
	// flight together, both end when the one pipeline is resolved.
	ReuseOf string `json:"reuse_of,omitempty"`
	// Attr: settings of the stage's task that have nothing to do with scheduling (bit 0 interactive, 1 a timeout of an
	// hour, 2 exportAs, 3 a dir): the order and the concurrency of stages do not depend on them.
	Attr int `json:"attr,omitempty"`
	// Deps may list a stage more than once (depends_on: [a, a, b]): that is the same as listing it once.
}

// Gr is a pipeline; Stages is the declaration order.
type Gr struct {
	Stages []*St `json:"stages"`
}

// model states
const (
	mWait = iota
	mRun
	mDone
	mErr
	mCancel
	mSkip
)

var stName = map[int]string{mWait: "waiting", mRun: "running", mDone: "done", mErr: "error", mCancel: "canceled", mSkip: "skipped"}

// model is the reference scheduler: no concurrency, no code shared with taskctl. Rules (from the
// statements of C01/C02): condition false => skipped, which satisfies dependants; a stage is
// eligible when every dependency is done, skipped or failed with allow_failure; it is cancelled
// when some dependency failed without allow_failure or was cancelled; a nesting stage is in flight
// while any inner stage is unresolved and fails iff an inner stage failed without allow_failure.
type model struct {
	g      *Gr
	st     map[string]int
	sub    map[string]*model
	byName map[string]*St
	ran    map[string]bool // leaf tasks the model expects to be executed
	// late selects the second reading the statements allow for a condition-false stage that has
	// dependencies: the condition is looked at only once the dependencies are satisfied (and the
	// stage is cancelled like any other if one of them failed). taskctl evaluates conditions
	// first ("early"); a run is accepted when it is consistent with either reading throughout.
	late bool
}

func newModel(g *Gr, late bool) *model {
	m := &model{g: g, st: map[string]int{}, sub: map[string]*model{}, byName: map[string]*St{}, ran: map[string]bool{}, late: late}
	for _, s := range g.Stages {
		m.byName[s.Name] = s
		if s.Nested != nil && s.ReuseOf == "" {
			m.sub[s.Name] = newModel(s.Nested, late)
		}
	}
	for _, s := range g.Stages {
		if s.ReuseOf != "" {
			for _, o := range g.Stages {
				if o.ID == s.ReuseOf {
					m.sub[s.Name] = m.sub[o.Name]
				}
			}
		}
	}
	return m
}

func (m *model) allowed(s *St) bool {
	return s.Outcome == FailAllow || (s.Nested != nil && s.Allow)
}

// step propagates statuses to a fixed point and returns the leaf tasks that become eligible.
func (m *model) step() (started []string) {
	changed := true
	for changed {
		changed = false
		for _, s := range m.g.Stages {
			switch m.st[s.Name] {
			case mWait:
				if s.Outcome == CondFalse && !m.late {
					m.st[s.Name] = mSkip
					changed = true
					continue
				}
				ready, cancel := true, false
				for _, d := range s.Deps {
					switch m.st[d] {
					case mDone, mSkip:
					case mErr:
						if !m.allowed(m.byName[d]) {
							cancel = true
						}
					case mCancel:
						cancel = true
					default:
						ready = false
					}
				}
				if cancel {
					m.st[s.Name] = mCancel
					changed = true
				} else if ready && s.Outcome == CondFalse {
					m.st[s.Name] = mSkip
					changed = true
				} else if ready {
					m.st[s.Name] = mRun
					changed = true
					if s.Nested == nil {
						started = append(started, s.ID)
						m.ran[s.ID] = true
					}
				}
			case mRun:
				if s.Nested != nil {
					sm := m.sub[s.Name]
					started = append(started, sm.step()...)
					if sm.resolved() {
						if sm.failed() && !s.Allow {
							m.st[s.Name] = mErr
						} else {
							m.st[s.Name] = mDone
						}
						changed = true
					}
				}
			}
		}
	}
	return started
}

func (m *model) resolved() bool {
	for _, s := range m.g.Stages {
		if v := m.st[s.Name]; v == mWait || v == mRun {
			return false
		}
	}
	return true
}

func (m *model) failed() bool {
	for _, s := range m.g.Stages {
		if m.st[s.Name] == mErr {
			return true
		}
	}
	return false
}

// finish records the end of the leaf task with the given id with its generated outcome.
func (m *model) finish(id string) bool {
	mm, s := m.find(id)
	if s == nil || s.Nested != nil {
		return false
	}
	switch s.Outcome {
	case OK, FailAllow:
		mm.st[s.Name] = mDone
	case Fail:
		mm.st[s.Name] = mErr
	}
	return true
}

// find locates a stage by its id.
func (m *model) find(id string) (*model, *St) {
	for _, s := range m.g.Stages {
		if s.ID == id {
			return m, s
		}
	}
	for _, sm := range m.sub {
		if mm, s := sm.find(id); s != nil {
			return mm, s
		}
	}
	return nil, nil
}

// assignIDs gives every stage without an id one (saved cases of earlier versions had unique names).
func assignIDs(g *Gr) {
	for _, s := range g.Stages {
		if s.ID == "" {
			s.ID = s.Name
		}
		if s.Nested != nil {
			assignIDs(s.Nested)
		}
	}
}

func (m *model) allRan(into map[string]bool) {
	for k := range m.ran {
		into[k] = true
	}
	for _, sm := range m.sub {
		sm.allRan(into)
	}
}

func (g *Gr) dump() string {
	var b strings.Builder
	for _, s := range g.Stages {
		fmt.Fprintf(&b, "%s%v o=%d", s.Name, s.Deps, s.Outcome)
		if s.ID != s.Name {
			fmt.Fprintf(&b, " id=%s", s.ID)
		}
		if s.CondTrue {
			b.WriteString(" cond")
		}
		if s.Nested != nil {
			fmt.Fprintf(&b, " nested{%s} allow=%v", s.Nested.dump(), s.Allow)
		}
		b.WriteString("; ")
	}
	return b.String()
}

func (g *Gr) size() (stages, edges int, nested, condErr bool) {
	for _, s := range g.Stages {
		stages++
		edges += len(s.Deps)
		if s.Outcome == CondErr {
			condErr = true
		}
		if s.Nested != nil {
			nested = true
			a, b, _, d := s.Nested.size()
			stages += a
			edges += b
			condErr = condErr || d
		}
	}
	return
}

func sortedKeys(m map[string]bool) []string {
	var o []string
	for k, v := range m {
		if v {
			o = append(o, k)
		}
	}
	sort.Strings(o)
	return o
}
