package c01

import (
	"errors"
	"fmt"
	"sort"
	"strings"
	"sync"
	"time"

	"github.com/taskctl/taskctl/pkg/scheduler"
	"github.com/taskctl/taskctl/pkg/task"

	"verif/harness/drv"
	"verif/harness/hook"
)

// failures come in different concrete error types, as they do from a real runner (an exit status, a time-out, a
// wrapped error ...): which one a task gets depends on its name only
type exitFailure struct{ name string }

func (e exitFailure) Error() string {
	return "verif: generated failure of " + e.name + " (exit status 3)"
}

type timeoutFailure struct{ name string }

func (e *timeoutFailure) Error() string {
	return "verif: generated failure of " + e.name + " (deadline exceeded)"
}

func genFailure(name string) error {
	h := 0
	for _, ch := range name {
		h = h*31 + int(ch)
	}
	switch h % 4 {
	case 0:
		return exitFailure{name}
	case 1:
		return &timeoutFailure{name}
	case 2:
		return fmt.Errorf("verif: generated failure of %s: %w", name, errors.New("wrapped"))
	}
	return errors.New("verif: generated failure of " + name)
}

// Chooser makes every choice of a schedule: which in-flight run completes next, whether several
// complete at once, whether the caller cancels now. It is backed by rapid draws, by an enumerator
// or by the recorded choices of a saved case.
type Chooser interface {
	Pick(label string, n int) int // a value in [0,n)
}

// recorded replays a list of choices (modulo n, 0 when exhausted) and records what it returned.
type recorded struct {
	in  []int
	pos int
	out []int
	ns  []int
}

func (r *recorded) Pick(_ string, n int) int {
	v := 0
	if r.pos < len(r.in) {
		v = r.in[r.pos] % n
	}
	r.pos++
	r.out = append(r.out, v)
	r.ns = append(r.ns, n)
	return v
}

// recording wraps another chooser and keeps what it answered.
type recording struct {
	c   Chooser
	out []int
}

func (r *recording) Pick(l string, n int) int {
	v := r.c.Pick(l, n)
	r.out = append(r.out, v)
	return v
}

// ---- controlled runner

var errCancelled = errors.New("verif: runner cancelled")

type ctrl struct {
	mu        sync.Mutex
	inflight  map[string][]chan error
	entries   []string
	dups      []string // tasks entered while an earlier entry of the same task was known
	cancelled bool
	cancelN   int
	wg        sync.WaitGroup
	ev        chan struct{}
}

func newCtrl() *ctrl {
	return &ctrl{inflight: map[string][]chan error{}, ev: make(chan struct{}, 1)}
}

func (c *ctrl) Run(t *task.Task) error {
	ch := make(chan error, 1)
	c.mu.Lock()
	for _, e := range c.entries {
		if e == t.Name {
			c.dups = append(c.dups, t.Name)
			break
		}
	}
	c.entries = append(c.entries, t.Name)
	if c.cancelled {
		c.mu.Unlock()
		c.kick()
		return errCancelled
	}
	c.inflight[t.Name] = append(c.inflight[t.Name], ch)
	c.wg.Add(1)
	c.mu.Unlock()
	defer c.wg.Done()
	c.kick()
	return <-ch
}

func (c *ctrl) kick() {
	select {
	case c.ev <- struct{}{}:
	default:
	}
}

// Cancel follows the documented contract of runner.Runner: everything in flight fails, Cancel
// waits for it, later runs fail at once.
func (c *ctrl) Cancel() {
	c.mu.Lock()
	c.cancelled = true
	c.cancelN++
	for k, chs := range c.inflight {
		for _, ch := range chs {
			ch <- errCancelled
		}
		delete(c.inflight, k)
	}
	c.mu.Unlock()
	c.kick()
	c.wg.Wait()
}

func (c *ctrl) Finish() {}

func (c *ctrl) names() []string {
	c.mu.Lock()
	defer c.mu.Unlock()
	n := make([]string, 0, len(c.inflight))
	for k := range c.inflight {
		n = append(n, k)
	}
	sort.Strings(n)
	return n
}

func (c *ctrl) wasCancelled() bool { c.mu.Lock(); defer c.mu.Unlock(); return c.cancelled }

func (c *ctrl) release(name string, err error) {
	c.mu.Lock()
	chs := c.inflight[name]
	delete(c.inflight, name)
	c.mu.Unlock()
	for _, ch := range chs {
		ch <- err
	}
}

func (c *ctrl) dupList() []string {
	c.mu.Lock()
	defer c.mu.Unlock()
	return append([]string{}, c.dups...)
}

func (c *ctrl) entryList() []string {
	c.mu.Lock()
	defer c.mu.Unlock()
	return append([]string{}, c.entries...)
}

// ---- building the real graph

func build(g *Gr, out map[string]*scheduler.Stage) (*scheduler.ExecutionGraph, error) {
	var ss []*scheduler.Stage
	graphs := map[string]*scheduler.ExecutionGraph{}
	for _, s := range g.Stages {
		if s.Nested != nil && s.ReuseOf == "" {
			ig, err := build(s.Nested, out)
			if err != nil {
				return nil, err
			}
			graphs[s.ID] = ig
		}
	}
	for _, s := range g.Stages {
		st := &scheduler.Stage{Name: s.Name, DependsOn: s.Deps}
		if s.Nested != nil {
			ig := graphs[s.ID]
			if s.ReuseOf != "" {
				ig = graphs[s.ReuseOf]
			}
			st.Pipeline = ig
			st.AllowFailure = s.Allow
		} else {
			tk := task.FromCommands("true")
			tk.Name = s.ID
			tk.Interactive = s.Attr&1 != 0
			if s.Attr&2 != 0 {
				d := time.Hour
				tk.Timeout = &d
			}
			if s.Attr&4 != 0 {
				tk.ExportAs = "OUT_" + s.ID
			}
			if s.Attr&8 != 0 {
				tk.Dir = "/tmp"
			}
			st.Task = tk
			st.AllowFailure = s.Outcome == FailAllow
		}
		switch {
		case s.Outcome == CondFalse:
			st.Condition = "false"
		case s.Outcome == CondErr:
			st.Condition = "/nonexistent/verif-cond"
		case s.CondTrue:
			st.Condition = "true"
		}
		out[s.ID] = st
		ss = append(ss, st)
	}
	return scheduler.NewExecutionGraph(ss...)
}

// Violation is one disagreement with an oracle, tagged with the property it belongs to.
type Violation struct {
	Props string `json:"props"` // space separated ids of the properties whose statement is contradicted
	Msg   string `json:"msg"`
}

// Hits reports whether the violation contradicts property id.
func (v Violation) Hits(id string) bool { return strings.Contains(" "+v.Props+" ", " "+id+" ") }

// Obs is what one execution showed.
type Obs struct {
	Order      []string         `json:"order"`   // releases in the order the property made them
	Entries    []string         `json:"entries"` // Run entries in the order the runner saw them
	MaxWidth   int              `json:"max_width"`
	Status     map[string]int32 `json:"status"`
	Err        bool             `json:"err"`
	Cancelled  string           `json:"cancelled,omitempty"` // "", "caller", "condition"
	InFlightAt int              `json:"in_flight_at_cancel"`
	Choices    []int            `json:"choices"`
	// classification for the non-trivial rules
	FailWithDependantAndSibling bool `json:"-"`
	MixedDeps                   bool `json:"-"`
	Liveness                    bool `json:"-"` // the violation (if any) is a breached time bound
}

// Params of one execution.
type Params struct {
	Pause      time.Duration // scheduler polling pause (hook); 0 = leave the default 50ms
	Settle     time.Duration // how long the in-flight set must stay equal to the expected set
	Bound      time.Duration // liveness bound for reaching the expected set / for Schedule to return
	Late       bool          // model reading, see model.late
	CancelOK   bool          // the chooser may inject a caller-side Cancel
	Subsets    bool          // the chooser may release several runs at once
	ForceLoose bool
}

var modelStatus = map[int]int32{mDone: scheduler.StatusDone, mErr: scheduler.StatusError, mCancel: scheduler.StatusCanceled,
	mSkip: scheduler.StatusSkipped, mWait: scheduler.StatusWaiting, mRun: scheduler.StatusRunning}

func statusName(s int32) string {
	switch s {
	case scheduler.StatusWaiting:
		return "waiting"
	case scheduler.StatusRunning:
		return "running"
	case scheduler.StatusSkipped:
		return "skipped"
	case scheduler.StatusDone:
		return "done"
	case scheduler.StatusError:
		return "error"
	case scheduler.StatusCanceled:
		return "canceled"
	}
	return fmt.Sprint(s)
}

// execute runs the pipeline once on the real scheduler under the chooser and compares every step
// with the model. It never blocks for longer than a few bounds.
func execute(g *Gr, ch Chooser, p Params) (obs Obs, vs []Violation) {
	obs.Status = map[string]int32{}
	rec := &recording{c: ch}
	defer func() { obs.Choices = rec.out }()
	assignIDs(g)
	real := map[string]*scheduler.Stage{}
	eg, err := build(g, real)
	if err != nil {
		vs = append(vs, Violation{"C05 C01 C02 C03 C04", fmt.Sprintf("acyclic pipeline rejected: %v", err)})
		return
	}
	_, _, _, condErr := g.size()
	loose := condErr || p.ForceLoose
	m := newModel(g, p.Late)
	c := newCtrl()
	s := scheduler.NewScheduler(c)
	if p.Pause > 0 {
		hook.SetPause(s, p.Pause)
	}
	done := make(chan error, 1)
	go func() { done <- s.Schedule(eg) }()
	returned := false
	var serr error

	expected := map[string]bool{}
	if !loose {
		for _, n := range m.step() {
			expected[n] = true
		}
	}
	finishedReleased := map[string]bool{}

	fail := func(prop, format string, a ...any) {
		vs = append(vs, Violation{prop, fmt.Sprintf(format, a...) + fmt.Sprintf(" | releases so far %v | pipeline %s", obs.Order, g.dump())})
	}
	classify := func(o string) string {
		// an unexpected start: why is it wrong?
		n := 0
		for _, e := range c.entryList() {
			if e == o {
				n++
			}
		}
		if n > 1 || finishedReleased[o] {
			return "C03"
		}
		mm, st := m.find(o)
		if st != nil {
			for _, d := range st.Deps {
				if v := mm.st[d]; v == mWait || v == mRun {
					return "C01"
				}
			}
			if mm.st[st.Name] == mCancel {
				// started after a dependency failed: neither "finished successfully, skipped or
				// failed with allow_failure" (C01) nor "cancelled and never run" (C02)
				return "C01 C02"
			}
			if mm.st[st.Name] == mSkip {
				return "C02"
			}
		}
		return "C01"
	}

	abort := func() {
		// let the real scheduler finish so that no goroutine outlives the case
		deadline := time.Now().Add(2 * time.Second)
		for time.Now().Before(deadline) {
			for _, n := range c.names() {
				c.release(n, nil)
			}
			select {
			case <-done:
				return
			case <-time.After(time.Millisecond):
			}
		}
		cd := make(chan struct{})
		go func() { c.Cancel(); close(cd) }()
		select {
		case <-cd:
		case <-time.After(2 * time.Second):
		}
	}

	throttled := false
	for !returned {
		// 1. reach quiescence
		deadline := time.Now().Add(p.Bound)
		if throttled {
			deadline = time.Now().Add(20 * p.Settle)
		}
		var obsNames []string
		for {
			select {
			case serr = <-done:
				returned = true
			default:
			}
			if returned {
				break
			}
			obsNames = c.names()
			if d := c.dupList(); len(d) > 0 {
				fail("C03", "task %s was executed twice (a second Run was entered)", d[0])
				abort()
				return
			}
			if c.wasCancelled() {
				break
			}
			if !loose {
				for _, o := range obsNames {
					if !expected[o] {
						fail(classify(o), "stage %s was started although the model does not allow it yet (expected in flight: %v)", o, sortedKeys(expected))
						abort()
						return
					}
				}
				if len(obsNames) == len(expected) {
					// settle: nothing else may start
					time.Sleep(p.Settle)
					again := c.names()
					if len(again) == len(obsNames) {
						break
					}
					continue
				}
			} else if len(obsNames) > 0 {
				time.Sleep(p.Settle)
				again := c.names()
				if len(again) == len(obsNames) {
					break
				}
				continue
			}
			if time.Now().After(deadline) {
				if !loose && len(expected) > 0 && len(obsNames) > 0 && drv.Prop() != "C04" && drv.Prop() != "" {
					// something holds eligible stages back while others run. That is C04's business; for the other
					// properties the run goes on with what is in flight (and waits only briefly from now on)
					if !throttled {
						fail("C04", "eligible stages %v were not all started within %v: in flight %v", sortedKeys(expected), p.Bound, obsNames)
					}
					throttled = true
					break
				}
				obs.Liveness = true
				if loose {
					fail("C03", "the run neither returned nor started anything for %v", p.Bound)
				} else if len(expected) == 0 {
					fail("C03", "every stage is resolved in the model but Schedule did not return within %v", p.Bound)
				} else {
					tags := "C04"
					if len(obsNames) == 0 {
						// nothing is in flight and nothing gets started: the run cannot end any more either
						tags = "C03 C04"
					}
					fail(tags, "eligible stages %v were not all started within %v: in flight %v", sortedKeys(expected), p.Bound, obsNames)
				}
				abort()
				return
			}
			select {
			case <-c.ev:
			case <-time.After(200 * time.Microsecond):
			}
		}
		if returned {
			break
		}
		if c.wasCancelled() {
			if obs.Cancelled == "" {
				obs.Cancelled = "condition"
				obs.InFlightAt = len(obsNames)
			}
			break
		}
		if len(obsNames) > obs.MaxWidth {
			obs.MaxWidth = len(obsNames)
		}
		if !loose && len(obsNames) == 0 {
			// model resolved: Schedule must return
			select {
			case serr = <-done:
				returned = true
			case <-time.After(p.Bound):
				obs.Liveness = true
				fail("C03", "every stage is resolved but Schedule did not return within %v", p.Bound)
				abort()
				return
			}
			break
		}
		// 2. choose
		if p.CancelOK && rec.Pick("cancel", 6) == 0 {
			obs.Cancelled = "caller"
			obs.InFlightAt = len(obsNames)
			cret := make(chan struct{})
			go func() { s.Cancel(); close(cret) }()
			select {
			case <-cret:
			case <-time.After(p.Bound):
				obs.Liveness = true
				fail("C03", "Scheduler.Cancel did not return within %v with %d runs in flight", p.Bound, len(obsNames))
				abort()
				return
			}
			break
		}
		var rel []string
		if p.Subsets && len(obsNames) >= 2 && rec.Pick("subset", 5) == 0 {
			mask := rec.Pick("mask", 1<<len(obsNames)-1) + 1
			for i, n := range obsNames {
				if mask&(1<<i) != 0 {
					rel = append(rel, n)
				}
			}
		} else {
			rel = []string{obsNames[rec.Pick("release", len(obsNames))]}
		}
		// classification before the model moves on
		if !loose {
			for _, nm := range rel {
				mm, st := m.find(nm)
				if st.Outcome == Fail {
					hasDep := false
					for _, o := range mm.g.Stages {
						for _, d := range o.Deps {
							if d == st.Name {
								hasDep = true
							}
						}
					}
					if hasDep && len(obsNames) >= 2 {
						obs.FailWithDependantAndSibling = true
					}
				}
				// a dependant with another dependency still running
				for _, o := range mm.g.Stages {
					has, other := false, false
					for _, d := range o.Deps {
						if d == st.Name && st.Outcome == Fail {
							has = true
						} else if mm.st[d] == mRun {
							other = true
						}
					}
					if has && other {
						obs.MixedDeps = true
					}
				}
			}
		}
		// the model moves first, then the runs are released: every later observation is compared
		// with an expected set that already knows about the release
		for _, nm := range rel {
			obs.Order = append(obs.Order, nm)
			delete(expected, nm)
			finishedReleased[nm] = true
			if !loose {
				m.finish(nm)
			}
		}
		if !loose {
			for _, n := range m.step() {
				expected[n] = true
			}
		}
		for _, nm := range rel {
			var out error
			_, st := m.find(nm)
			if st.Outcome == Fail || st.Outcome == FailAllow {
				out = genFailure(nm)
			}
			c.release(nm, out)
		}
	}

	// 3. the run must return
	if !returned {
		select {
		case serr = <-done:
		case <-time.After(p.Bound):
			obs.Liveness = true
			fail("C03", "Schedule did not return within %v after the run was cancelled (%s, %d in flight)", p.Bound, obs.Cancelled, obs.InFlightAt)
			abort()
			return
		}
	}
	obs.Err = serr != nil
	obs.Entries = c.entryList()
	for n, st := range real {
		obs.Status[n] = st.ReadStatus()
	}
	// no task twice, in every kind of run
	seen := map[string]int{}
	for _, e := range obs.Entries {
		seen[e]++
		if seen[e] == 2 {
			fail("C03", "task %s was executed twice", e)
		}
	}
	if loose || obs.Cancelled != "" {
		return
	}
	// normal run: compare the outcome with the model
	if !m.resolved() {
		fail("C03", "Schedule returned while the model still has unresolved stages")
	}
	wantRan := map[string]bool{}
	m.allRan(wantRan)
	for n := range wantRan {
		if seen[n] == 0 {
			fail("C03 C02", "stage %s was eligible but never executed", n)
		}
	}
	for n := range seen {
		if !wantRan[n] {
			fail("C02 C01", "stage %s was executed although the model says it must not run", n)
		}
	}
	if obs.Err != m.failed() {
		fail("C02", "Schedule returned error=%v, the model says a non-allowed failure happened=%v", serr, m.failed())
	}
	var cmp func(mm *model)
	cmp = func(mm *model) {
		for _, st := range mm.g.Stages {
			want := modelStatus[mm.st[st.Name]]
			got := real[st.ID].ReadStatus()
			if got == scheduler.StatusWaiting || got == scheduler.StatusRunning {
				fail("C03", "stage %s is left %s after Schedule returned", st.Name, statusName(got))
			} else if got != want {
				fail("C02", "stage %s ended %s, the model says %s", st.Name, statusName(got), statusName(want))
			}
		}
		for _, k := range sortedSub(mm) {
			if mm.st[k] != mSkip && mm.st[k] != mCancel && mm.st[k] != mWait {
				cmp(mm.sub[k])
			}
		}
	}
	cmp(m)
	return
}

func sortedSub(m *model) []string {
	var ks []string
	for k := range m.sub {
		ks = append(ks, k)
	}
	sort.Strings(ks)
	return ks
}
