//go:build verif

package c01

import (
	"time"

	"github.com/taskctl/taskctl/pkg/scheduler"
)

const haveHook = true

func setPause(s *scheduler.Scheduler, d time.Duration) { s.VerifSetPause(d) }
